#!/usr/bin/env python3
"""Translate the closed-form parts of /repo into coq/gen/*.v (+ .json side-cars).

usage: translate.py [--out DIR] [group ...]       (no group = all)
Exit status 0 = all requested groups translated; 2 = translator stopped
(fail-closed); the diagnostic names file, line and construct.
"""
import ast
import json
import os
import sys
import traceback

sys.path.insert(0, os.path.dirname(os.path.abspath(__file__)))
import gen
from gen import (REPO, HEADER, translate_class, emit_class, class_json, translate_function, emit_function,
                 expr_to_json)
from py2coq import Module, Unsupported, Obj, num, is_expr

S = os.path.join(REPO, 'exactpack', 'solvers')

GROUPS = {}


def group(name):
    def deco(f):
        GROUPS[name] = f
        return f
    return deco


def classes_group(relpath, classes, outname):
    """generic: translate a list of (class, prefix) from one module"""
    mod = Module(os.path.join(S, relpath))
    text = HEADER % ('exactpack/solvers/' + relpath)
    js = {}
    for cname, pfx in classes:
        info = translate_class(mod, cname)
        text += '\n' + emit_class(info, pfx)
        js[pfx] = class_json(info, pfx)
    return {outname: (text, js)}


def wrappers_of(mod, base):
    out = []
    for cn, node in mod.classes.items():
        if cn == base:
            continue
        for b in node.bases:
            if getattr(b, 'id', None) == base:
                out.append(cn)
    return out


def family(relpath, base, pfx, outname):
    mod = Module(os.path.join(S, relpath))
    cl = [(base, pfx)] + [(w, w.lower()) for w in wrappers_of(mod, base)]
    return classes_group(relpath, cl, outname)


@group('noh')
def g_noh():
    return family('noh/noh1.py', 'Noh', 'noh', 'Noh1')


@group('noh2')
def g_noh2():
    out = family('noh2/noh2.py', 'Noh2', 'noh2', 'Noh2')
    out.update(family('noh2/noh2_cog.py', 'Noh2Cog', 'noh2cog', 'Noh2Cog'))
    return out


def _cog(i):
    def f():
        return family('cog/cog%d.py' % i, 'Cog%d' % i, 'cog%d' % i, 'Cog%d' % i)
    return f


for _i in list(range(1, 15)) + [16, 17, 18, 19, 20, 21]:
    GROUPS['cog%d' % _i] = _cog(_i)


def functions_group(relpath, outname, specs, inst_attrs=None, header_extra=''):
    """specs: list of (coq_name, python function, [(pyarg, binding)], outputs) where binding is a free-variable name
    (str), the string '@inst' for the instance object, or ('attr', name) to bind the argument to inst.<name>;
    outputs: None (single value) or list of suffixes for a returned tuple."""
    mod = Module(os.path.join(S, relpath))
    text = HEADER % ('exactpack/solvers/' + relpath) + header_extra
    js = {}
    for coqname, fname, binds, outs in specs:
        inst = Obj('', dict(inst_attrs or {}), frozen=False, name='inst')
        argspec = []
        args = []
        for a, b in binds:
            if b == '@inst':
                argspec.append((a, inst))
            elif isinstance(b, tuple) and b[0] == 'attr':
                argspec.append((a, ('var', b[1])))
            elif isinstance(b, tuple) and b[0] == 'const':
                argspec.append((a, num(b[1])))
            else:
                argspec.append((a, b))
                if b not in args:
                    args.append(b)
        ret, interp = translate_function(mod, fname, argspec)
        if interp.raises:
            raise Unsupported('%s.%s raises on some path' % (relpath, fname))
        vals = [ret] if outs is None else list(ret)
        names = [coqname] if outs is None else ['%s_%s' % (coqname, o) for o in outs]
        if len(vals) != len(names):
            raise Unsupported('%s.%s: returns %d values, expected %d' % (relpath, fname, len(vals), len(names)))
        for nm, e in zip(names, vals):
            if not is_expr(e):
                raise Unsupported('%s.%s: result %s is not a scalar expression' % (relpath, fname, nm))
            from py2coq import free_vars
            fv = free_vars(e)
            allargs = list(args) + sorted(v for v in fv if v not in args)
            text += '\n' + emit_function(nm, allargs, e, comment='%s(%s)' % (fname, ', '.join('%s=%s' % (a, b if isinstance(b, str) else b[1]) for a, b in binds)))
            text += '#[global] Hint Unfold %s : epgen.\n' % nm
            js[nm] = {'args': allargs, 'expr': expr_to_json(e), 'python': fname}
    return {outname: (text, js)}


IG = {'problem': 'igeos'}
L4 = [('p', ('attr', 'pl')), ('r', ('attr', 'rl')), ('u', ('attr', 'ul')), ('g', ('attr', 'gl'))]
R4 = [('p', ('attr', 'pr')), ('r', ('attr', 'rr')), ('u', ('attr', 'ur')), ('g', ('attr', 'gr'))]


@group('riemann')
def g_riemann():
    I = ('inst', '@inst')
    specs = [
        ('rie_sound_speed', 'sound_speed', [('p', 'p'), ('r', 'r'), ('g', 'g'), I], None),
        ('rie_sie', 'sie', [('p', 'p'), ('r', 'r'), ('g', 'g'), I], None),
        ('rie_rarefaction', 'rarefaction', [('px', 'px'), ('p', 'p'), ('r', 'r'), ('u', 'u'), ('g', 'g'), I], None),
        ('rie_shock', 'shock', [('px', 'px'), ('p', 'p'), ('r', 'r'), ('u', 'u'), ('g', 'g'), I], None),
        ('rie_rho_star_shock', 'rho_star_shock', [('px', 'px'), ('p', 'p'), ('r', 'r'), ('g', 'g'), I], None),
        ('rie_rho_star_rarefaction', 'rho_star_rarefaction', [('px', 'px'), ('p', 'p'), ('r', 'r'), ('g', 'g'), I], None),
        ('rie_SCS_call', 'SCS_call', [('p', 'px'), I], None),
        ('rie_SCR_call', 'SCR_call', [('p', 'px'), I], None),
        ('rie_RCS_call', 'RCS_call', [('p', 'px'), I], None),
        ('rie_RCR_call', 'RCR_call', [('p', 'px'), I], None),
        # the fan and the shock speed as the driver calls them for the left and for the right state
        ('rie_fanL', 'rho_p_u_rarefaction', L4 + [('x', 'x'), ('xd0', 'xd0'), ('t', 't'), I], ['rho', 'p', 'u']),
        ('rie_fanR', 'rho_p_u_rarefaction', R4 + [('x', 'x'), ('xd0', 'xd0'), ('t', 't'), I], ['rho', 'p', 'u']),
        ('rie_shock_velocityL', 'shock_velocity', [('px', 'px')] + L4 + [I], None),
        ('rie_shock_velocityR', 'shock_velocity', [('px', 'px')] + R4 + [I], None),
        ('rie_u_SCN', 'u_SCN', [('px', 'px'), I], None),
        ('rie_u_NCS', 'u_NCS', [('px', 'px'), I], None),
        ('rie_u_NCR', 'u_NCR', [('px', 'px'), I], None),
        ('rie_u_RCN', 'u_RCN', [('px', 'px'), I], None),
        ('rie_u_RCVR', 'u_RCVR', [('p', 'px'), I], None),
    ]
    return functions_group('riemann/utils.py', 'Riemann', specs, inst_attrs=IG)


def methods_group(relpath, outname, specs):
    """specs: list of (coq prefix, class, [self attribute names], [(method, [arg names])])"""
    from gen import translate_method, nan_cond, strip_nan
    from py2coq import coq_prop, cnot, free_vars
    mod = Module(os.path.join(S, relpath))
    text = HEADER % ('exactpack/solvers/' + relpath)
    js = {}
    for pfx, cname, selfvars, methods in specs:
        for mname, argv in methods:
            ret, interp = translate_method(mod, cname, mname, argv, selfvars)
            if not is_expr(ret):
                raise Unsupported('%s.%s.%s does not return a number' % (relpath, cname, mname))
            nm = '%s_%s' % (pfx, mname)
            dom = cnot(nan_cond(ret))
            for (path, exc, msg, ln) in interp.raises:
                from py2coq import cand
                dom = cand(dom, cnot(path))
            e = strip_nan(ret)
            allargs = list(argv) + [a for a in selfvars]
            for v in free_vars(e):
                if v not in allargs:
                    raise Unsupported('%s.%s.%s: stray variable %s' % (relpath, cname, mname, v))
            text += '\n' + emit_function(nm, allargs, e, comment='%s.%s(%s)' % (cname, mname, ', '.join(argv)))
            text += '#[global] Hint Unfold %s : epgen.\n' % nm
            sig = '(%s : R)' % ' '.join(gen.coq_name(a) for a in allargs)
            text += 'Definition %s_dom %s : Prop := %s.\n' % (nm, sig, coq_prop(dom))
            js[nm] = {'args': allargs, 'expr': expr_to_json(e), 'dom': expr_to_json(dom), 'class': cname, 'method': mname}
    return {outname: (text, js)}


EOS_METHODS = [('P', ['rho', 'e']), ('dP_drho', ['rho', 'e']), ('dP_de', ['rho', 'e']),
               ('e', ['rho', 'P']), ('de_dP', ['rho', 'P']), ('de_drho', ['rho', 'P'])]


@group('eos')
def g_eos():
    ST = ['reference_density', 'reference_pressure', 'reference_gruneisen', 'b', 'c_0', 's_1', 's_2', 's_3']
    specs = [
        ('eos_ideal', 'ideal_gas_eos', ['gamma'], EOS_METHODS),
        ('eos_stiff', 'stiffened_gas_eos', ['gamma', 'c_s', 'rho_inf'], EOS_METHODS),
        ('eos_na', 'noble_abel_eos', ['gamma', 'b'], EOS_METHODS),
        ('eos_cs', 'carnahan_starling_eos', ['gamma', 'b'], [m for m in EOS_METHODS if m[0] != 'de_drho'] + [('de_drho', ['P', 'rho']), ('Z', ['eta']), ('dZ_deta', ['eta'])]),
        ('eos_st', 'steinberg', ST, EOS_METHODS + [('P_inf', ['rho']), ('e_inf', ['rho']), ('gruneisen', ['rho']), ('dPinf_drho', ['rho']),
                                                   ('deinf_drho', ['rho']), ('dgru_drho', ['rho']), ('eta', ['rho'])]),
    ]
    return methods_group('nohblackboxeos/equations_of_state/eos_library.py', 'EosLibrary', specs)


@group('radshock')
def g_radshock():
    """travelling-wave structure of the radiative-shock wrappers' _run (np.interp on flipped profile arrays with
    shifted knots) and the upstream sound speed coded in radshock.py"""
    from gen import translate_method
    from py2coq import Solution, free_vars, coq_name
    mod = Module(os.path.join(S, 'radshocks/nED_radshocks.py'))
    text = HEADER % 'exactpack/solvers/radshocks/nED_radshocks.py, radshock.py'
    js = {}
    for cname, pfx in (('ED_Solver', 'rs_ed'), ('nED_Solver', 'rs_ned'), ('Sn_Solver', 'rs_sn'), ('ie_Solver', 'rs_ie')):
        calls = []

        def h_flip(interp, args, kwargs, n):
            a = args[0]
            if not (is_expr(a) and a[0] == 'var'):
                interp.err(n, 'flip of a non-attribute')
            return ('var', 'flip_' + a[1])

        def h_interp(interp, args, kwargs, n):
            calls.append((args[0], args[1], args[2]))
            return ('var', 'I%d' % (len(calls) - 1))
        ret, interp = translate_method(mod, cname, '_run', ['x', 't'], [], frozen_self=False,
                                       extra_helpers={'flip': h_flip, 'interp': h_interp,
                                                      'ExactSolution': lambda i, a, k, n: Solution(a[0], k.get('names', a[1] if len(a) > 1 else None))})
        if not isinstance(ret, Solution):
            raise Unsupported('%s._run does not return ExactSolution' % cname)
        fields = []
        shift = None
        for nm, e in zip(ret.names[1:], ret.data[1:]):
            if not (is_expr(e) and e[0] == 'var' and e[1].startswith('I')):
                raise Unsupported('%s._run: field %s is not a plain np.interp result' % (cname, nm))
            xq, xp, fp = calls[int(e[1][1:])]
            if xq != ('var', 'x') or not (is_expr(fp) and fp[0] == 'var' and fp[1].startswith('flip_')):
                raise Unsupported('%s._run: field %s is not interp(x, knots, flip(profile))' % (cname, nm))
            if not (is_expr(xp) and xp[0] == 'add' and xp[1] == ('neg', ('var', 'flip_x')) and 'flip_x' not in free_vars(xp[2])):
                raise Unsupported('%s._run: knots of %s are not -flip(self.x) + shift' % (cname, nm))
            if shift is None:
                shift = xp[2]
            elif shift != xp[2]:
                raise Unsupported('%s._run: fields use different shifts' % cname)
            fields.append((nm, fp[1][5:]))
        if ret.data[0] != ('var', 'x'):
            raise Unsupported('%s._run: first column is not the input' % cname)
        args = sorted(free_vars(shift))
        text += '\n' + emit_function(pfx + '_shift', args, shift, comment='%s._run: every field is interp(x, -flip(self.x) + SHIFT, flip(self.<profile>))' % cname)
        text += 'Definition %s_profiles : list (string * string) := [%s].\n' % (pfx, '; '.join('("%s"%%string, "%s"%%string)' % f for f in fields))
        js[pfx] = {'shift_args': args, 'shift': expr_to_json(shift), 'fields': fields}
    # upstream sound speed as coded in radshock.RadShock.__init__ / IEShock.__init__
    mod2 = Module(os.path.join(S, 'radshocks/radshock.py'))
    for cname, pfx in (('RadShock', 'rs_sound'), ('IEShock', 'rs_sound_ie')):
        node = None
        for st in mod2.classes[cname].body:
            if isinstance(st, ast.FunctionDef) and st.name == '__init__':
                node = st
        argn = [a.arg for a in node.args.args[1:]]
        ret, interp = translate_method(mod2, cname, '__init__', argn, [], frozen_self=False)
        e = interp.selfo.attrs.get('sound')
        if not is_expr(e):
            raise Unsupported('radshock.%s: no numeric attribute sound' % cname)
        args = sorted(free_vars(e))
        text += '\n' + emit_function(pfx, args, e, comment='%s.__init__: self.sound' % cname)
        js[pfx] = {'args': args, 'expr': expr_to_json(e)}
    return {'RadShock': (text, js)}


@group('footprint')
def g_footprint():
    import footprint
    fp = footprint.build()
    return {'Footprint': (footprint.emit(fp), fp)}


@group('catalogue')
def g_catalogue():
    import catalogue
    cat = catalogue.build()
    return {'Catalogue': (catalogue.emit(cat), cat)}


@group('inits')
def g_inits():
    """constructor guard chains of every catalogue class whose __init__ is in the accepted subset"""
    import catalogue
    from py2coq import coq_prop, coq_name, has_tag
    cat = catalogue.build()
    text = HEADER % 'every solver class (constructor guards)'
    js = {}
    done = []
    skipped = []
    for d in cat:
        mod = gen.load_module(os.path.join(REPO, d['file']))
        name = 'i_' + d['class']
        if name in js:
            name = 'i_%s_%s' % (d['module'].split('.')[-1], d['class'])
        try:
            info = translate_class(mod, d['class'], init_only=True)
        except Unsupported as ex:
            skipped.append('%s.%s: %s' % (d['module'], d['class'], str(ex)[-120:]))
            continue
        ps = info.params
        sig = ('(%s : R)' % ' '.join(coq_name(p) for p in ps)) if ps else ''
        body = 'False' if info.always_raises else coq_prop(info.init_ok)
        text += '\n(* %s.%s: %d raise site(s) *)\nDefinition %s %s : Prop := %s.\n' % (d['module'], d['class'], len(info.init_raises), name, sig, body)
        js[name] = {'class': d['class'], 'module': d['module'], 'params': ps, 'init_ok': expr_to_json(info.init_ok),
                    'always_raises': info.always_raises,
                    'defaults': {k: expr_to_json(v) for k, v in info.defaults.items() if is_expr(v) and not has_tag(v, 'var')},
                    'raises': [[expr_to_json(p_), exc, msg, ln] for p_, exc, msg, ln in info.init_raises]}
        done.append(name)
    text += '\nDefinition init_translated : list string := [%s].\n' % '; '.join('"%s"%%string' % n for n in done)
    js['_skipped'] = skipped
    return {'Init': (text, js)}


def main(argv):
    out = os.path.join(os.path.dirname(os.path.dirname(os.path.abspath(__file__))), 'coq', 'gen')
    names = []
    i = 0
    while i < len(argv):
        if argv[i] == '--out':
            out = argv[i + 1]
            i += 2
        else:
            names.append(argv[i])
            i += 1
    if not names:
        names = list(GROUPS)
    os.makedirs(out, exist_ok=True)
    status = 0
    report = {}
    for g in names:
        try:
            files = GROUPS[g]()
            for fn, (text, js) in files.items():
                p = os.path.join(out, fn + '.v')
                old = open(p).read() if os.path.exists(p) else None
                if old != text:
                    with open(p, 'w') as f:
                        f.write(text)
                with open(os.path.join(out, fn + '.json'), 'w') as f:
                    json.dump(js, f)
            report[g] = 'ok'
        except Unsupported as ex:
            report[g] = 'UNSUPPORTED: %s' % ex
            status = 2
        except Exception as ex:
            report[g] = 'ERROR: %s\n%s' % (ex, traceback.format_exc())
            status = 2
    for g, r in report.items():
        print('%-12s %s' % (g, r))
    return status


if __name__ == '__main__':
    sys.exit(main(sys.argv[1:]))
