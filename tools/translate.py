#!/usr/bin/env python3
"""Translate the closed-form parts of /repo into coq/gen/*.v (+ .json side-cars).

usage: translate.py [--out DIR] [group ...]       (no group = all)
Exit status 0 = all requested groups translated; 2 = translator stopped
(fail-closed); the diagnostic names file, line and construct.
"""
import json
import os
import sys
import traceback

sys.path.insert(0, os.path.dirname(os.path.abspath(__file__)))
import gen
from gen import (REPO, HEADER, translate_class, emit_class, class_json, translate_function, emit_function,
                 expr_to_json)
from py2coq import Module, Unsupported, Obj, num, is_expr

S = os.path.join(REPO, 'exactpack', 'solvers')

GROUPS = {}


def group(name):
    def deco(f):
        GROUPS[name] = f
        return f
    return deco


def classes_group(relpath, classes, outname):
    """generic: translate a list of (class, prefix) from one module"""
    mod = Module(os.path.join(S, relpath))
    text = HEADER % ('exactpack/solvers/' + relpath)
    js = {}
    for cname, pfx in classes:
        info = translate_class(mod, cname)
        text += '\n' + emit_class(info, pfx)
        js[pfx] = class_json(info, pfx)
    return {outname: (text, js)}


def wrappers_of(mod, base):
    out = []
    for cn, node in mod.classes.items():
        if cn == base:
            continue
        for b in node.bases:
            if getattr(b, 'id', None) == base:
                out.append(cn)
    return out


def family(relpath, base, pfx, outname):
    mod = Module(os.path.join(S, relpath))
    cl = [(base, pfx)] + [(w, w.lower()) for w in wrappers_of(mod, base)]
    return classes_group(relpath, cl, outname)


@group('noh')
def g_noh():
    return family('noh/noh1.py', 'Noh', 'noh', 'Noh1')


@group('noh2')
def g_noh2():
    out = family('noh2/noh2.py', 'Noh2', 'noh2', 'Noh2')
    out.update(family('noh2/noh2_cog.py', 'Noh2Cog', 'noh2cog', 'Noh2Cog'))
    return out


def _cog(i):
    def f():
        return family('cog/cog%d.py' % i, 'Cog%d' % i, 'cog%d' % i, 'Cog%d' % i)
    return f


for _i in list(range(1, 15)) + [16, 17, 18, 19, 20, 21]:
    GROUPS['cog%d' % _i] = _cog(_i)


def main(argv):
    out = os.path.join(os.path.dirname(os.path.dirname(os.path.abspath(__file__))), 'coq', 'gen')
    names = []
    i = 0
    while i < len(argv):
        if argv[i] == '--out':
            out = argv[i + 1]
            i += 2
        else:
            names.append(argv[i])
            i += 1
    if not names:
        names = list(GROUPS)
    os.makedirs(out, exist_ok=True)
    status = 0
    report = {}
    for g in names:
        try:
            files = GROUPS[g]()
            for fn, (text, js) in files.items():
                p = os.path.join(out, fn + '.v')
                old = open(p).read() if os.path.exists(p) else None
                if old != text:
                    with open(p, 'w') as f:
                        f.write(text)
                with open(os.path.join(out, fn + '.json'), 'w') as f:
                    json.dump(js, f)
            report[g] = 'ok'
        except Unsupported as ex:
            report[g] = 'UNSUPPORTED: %s' % ex
            status = 2
        except Exception as ex:
            report[g] = 'ERROR: %s\n%s' % (ex, traceback.format_exc())
            status = 2
    for g, r in report.items():
        print('%-12s %s' % (g, r))
    return status


if __name__ == '__main__':
    sys.exit(main(sys.argv[1:]))
