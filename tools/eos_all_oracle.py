#!/usr/bin/env python3
"""C03 oracle on the REAL implementation for the solvers whose EOS consistency is not covered by a theorem: at every
returned point the thermodynamic fields must satisfy the declared equation of state (side-aware for Riemann problems
with different gammas left and right of the contact)."""
import harness as H

SCRIPT = r'''
import warnings
def rel(a, b):
    a = np.asarray(a, float); b = np.asarray(b, float)
    m = np.isfinite(a) & np.isfinite(b) & (np.abs(b) > 0)
    return float(np.max(np.abs(a[m] - b[m]) / np.abs(b[m]))) if m.any() else 0.0
def riemann(c):
    from exactpack.solvers.riemann.ep_riemann import IGEOS_Solver, GenEOS_Solver
    cls = IGEOS_Solver if c['class'] == 'IGEOS_Solver' else GenEOS_Solver
    P = c['params']
    s = cls(**P)
    x = np.linspace(-1.3, 1.7, 1501)          # fine enough that a fan changes by well under 2 % per cell
    sol = s(x, c['t'])
    p, r, e, u = (np.asarray(sol[k], float) for k in ('pressure', 'density', 'specific_internal_energy', 'velocity'))
    xs = np.asarray(sol['position'], float)
    # the contact is where x = xd0 + u(x) t
    k = int(np.argmin(np.abs(xs - P['xd0'] - u * c['t'])))
    # the general-EOS driver interpolates its own grid: points in a cell that straddles a discontinuity carry interpolated
    # (p, rho, e); those cells (relative change > 2 % between neighbours, +-3 points) are not compared
    jump = np.zeros(len(xs), bool)
    for f in (p, r):
        d = np.abs(np.diff(f)) / np.maximum(np.abs(f[1:]), np.abs(f[:-1]))
        for i in np.nonzero(d > 0.02)[0]:
            jump[max(0, i - 3):i + 5] = True
    left = (np.arange(len(xs)) < k - 3) & ~jump; right = (np.arange(len(xs)) > k + 3) & ~jump
    return {'gamma_law_left': rel(p[left], (P['gl'] - 1) * r[left] * e[left]), 'gamma_law_right': rel(p[right], (P['gr'] - 1) * r[right] * e[right])}
def sedov(c):
    from exactpack.solvers.sedov import Sedov
    s = Sedov(**c['params'])
    sol = s(np.array(c['pts'], float), c['t'])
    g = c['params']['gamma']
    p, r, e, cs = (np.asarray(sol[k], float) for k in ('pressure', 'density', 'specific_internal_energy', 'sound_speed'))
    m = p > 0
    return {'gamma_law': rel(p[m], (g - 1) * r[m] * e[m]), 'sound_speed': rel(cs[m] ** 2, g * p[m] / r[m])}
def ehep(c):
    from exactpack.solvers.ehep import EscapeOfHEProducts
    s = EscapeOfHEProducts(**c['params'])
    sol = s(np.array(c['pts'], float), c['t'])
    p, r, e, cs = (np.asarray(sol[k], float) for k in ('pressure', 'density', 'specific_internal_energy', 'sound_speed'))
    m = np.isfinite(p) & (p > 0)
    return {'gamma_law': rel(p[m], 2.0 * r[m] * e[m]), 'sound_speed': rel(cs[m] ** 2, 3.0 * p[m] / r[m])}
def mader(c):
    from exactpack.solvers.mader import Mader
    s = Mader(**c['params'])
    x = np.linspace(0.0, c['xmax'], 4001)
    sol = s(x, c['t'])
    g = c['params']['gamma']
    p, r, cs = (np.asarray(sol[k], float) for k in ('pressure', 'density', 'sound_speed'))
    return {'sound_speed_cellavg': rel(cs ** 2, g * p / r)}
def rmtv(c):
    from exactpack.solvers.rmtv import Rmtv
    s = Rmtv(**c['params'])
    sol = s(np.array(c['pts'], float), 0.0)
    G, g = s.bigamma, s.gamma
    p, r, e, T = (np.asarray(sol[k], float) for k in ('pressure', 'density', 'energy', 'temperature'))
    m = p > 0
    return {'gamma_law': rel(p[m], (g - 1) * r[m] * e[m]), 'P_Gamma_rho_T': rel(p[m], 1e13 * G * r[m] * T[m]), 'e_Gamma_T': rel(e[m], 1e13 * G * T[m] / (g - 1))}
KIND = dict(riemann=riemann, sedov=sedov, ehep=ehep, mader=mader, rmtv=rmtv)
def main(payload):
    out = []
    for c in payload:
        try:
            with warnings.catch_warnings():
                warnings.simplefilter('ignore')
                out.append(KIND[c['kind']](c))
        except Exception as ex:
            out.append({'error': type(ex).__name__ + ': ' + str(ex)[:200]})
    return out
'''
THRESH = {'gamma_law_left': 1e-4, 'gamma_law_right': 1e-4, 'gamma_law': 1e-8, 'sound_speed': 1e-8, 'sound_speed_cellavg': 1e-4,
          'P_Gamma_rho_T': 1e-10, 'e_Gamma_T': 1e-10}


def r4(rng, lo, hi):
    return float('%.4g' % rng.uniform(lo, hi))


def cases(rng, n):
    out = []
    for _ in range(n):
        for cls in ('IGEOS_Solver', 'GenEOS_Solver'):
            P = {'pl': r4(rng, 0.3, 3), 'pr': r4(rng, 0.3, 3), 'rl': r4(rng, 0.3, 3), 'rr': r4(rng, 0.3, 3), 'ul': r4(rng, -1, 1), 'ur': r4(rng, -1, 1),
                 'gl': r4(rng, 1.2, 2.2), 'gr': r4(rng, 1.2, 2.2), 'xmin': -3.0, 'xd0': 0.2, 'xmax': 3.0, 't': 0.25}
            out.append({'kind': 'riemann', 'class': cls, 'params': P, 't': 0.25})
            # structured: right rarefaction + left shock (SCR), left rarefaction + right shock (RCS), two rarefactions (RCR), two shocks (SCS)
            pat = rng.choice(['SCR', 'RCS', 'RCR', 'SCS'])
            Q = dict(P, ul=0.0, ur=0.0)
            if pat == 'SCR':
                Q.update(pl=r4(rng, 0.05, 0.2), pr=r4(rng, 0.8, 2))
            elif pat == 'RCS':
                Q.update(pl=r4(rng, 0.8, 2), pr=r4(rng, 0.05, 0.2))
            elif pat == 'RCR':
                Q.update(pl=P['pr'], ul=-r4(rng, 0.2, 0.5), ur=r4(rng, 0.2, 0.5))
            else:
                Q.update(pl=P['pr'], ul=r4(rng, 0.3, 1.0), ur=-r4(rng, 0.3, 1.0))
            out.append({'kind': 'riemann', 'class': cls, 'params': Q, 't': 0.25, 'pattern': pat})
            if cls == 'GenEOS_Solver':
                # both rarefaction sides of the general driver in every run
                out.append({'kind': 'riemann', 'class': cls, 'params': dict(P, ul=-r4(rng, 0.2, 0.5), ur=r4(rng, 0.2, 0.5), pl=P['pr']), 't': 0.25, 'pattern': 'RCR'})
        g = rng.choice([1, 2, 3])
        out.append({'kind': 'sedov', 'params': {'geometry': g, 'gamma': r4(rng, 1.2, 2.2), 'rho0': r4(rng, 0.3, 3), 'eblast': r4(rng, 0.3, 2)},
                    'pts': sorted(r4(rng, 0.05, 3) for _ in range(10)), 't': r4(rng, 0.1, 1.5)})
        D = r4(rng, 0.3, 2)
        out.append({'kind': 'ehep', 'params': {'D': D, 'rho_0': r4(rng, 0.5, 3), 'up': r4(rng, 0.0, 0.2) * D, 'xtilde': r4(rng, 0.5, 1.5), 'xmax': 10.0, 'tmax': 10.0},
                    'pts': sorted(r4(rng, 0.01, 4.0) for _ in range(10)), 't': r4(rng, 0.3, 3)})
        # the whole slab from the front to the piston (fan, transition cell and constant state), gamma away from 3, with and without a moving piston
        dcj = r4(rng, 0.3, 1.5); tm = r4(rng, 3, 8)
        for gam_, up_ in ((r4(rng, 2.2, 2.8), 0.0), (r4(rng, 3.2, 3.6), r4(rng, 0.02, 0.1) * dcj)):
            out.append({'kind': 'mader', 'params': {'p_cj': r4(rng, 0.1, 1), 'd_cj': dcj, 'gamma': gam_, 'u_piston': up_}, 't': tm, 'xmax': 0.98 * dcj * tm})
        out.append({'kind': 'rmtv', 'params': {'bigamma': r4(rng, 0.3, 3)}, 'pts': sorted(r4(rng, 0.05, 1.2) for _ in range(6))})
    return out


def oracle(rng, tier, reasons, kinds=None):
    cs = [c for c in cases(rng, 1 if tier == 'quick' else 8) if kinds is None or c['kind'] in kinds]
    res = H.run_real(SCRIPT, cs, timeout=1800)
    fails = []
    for c, r in zip(cs, res):
        if 'error' in r:
            continue
        bad = {k: v for k, v in r.items() if not (v <= THRESH[k])}
        if bad:
            fails.append({'solver': c['kind'], 'input': c, 'relative_eos_residuals': bad, 'why': 'returned thermodynamic fields do not satisfy the declared equation of state'})
    return fails


if __name__ == '__main__':
    import random, sys
    cs = cases(random.Random(int(sys.argv[1]) if len(sys.argv) > 1 else 0), 2)
    for c, r in zip(cs, H.run_real(SCRIPT, cs)):
        print(c['kind'], c.get('class', ''), {k: ('%.1e' % v if isinstance(v, float) else v) for k, v in r.items()})
