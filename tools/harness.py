#!/usr/bin/env python3
"""Shared machinery of the checks: building Coq, running the real
implementation, correspondence cases, evidence, verdicts."""
import fcntl
import glob
import hashlib
import json
import os
import random
import re
import subprocess
import sys
import time
from fractions import Fraction

VERIF = os.path.dirname(os.path.dirname(os.path.abspath(__file__)))
COQ = os.path.join(VERIF, 'coq')
REPO = os.environ.get('EXACTPACK_REPO', '/repo')
PY = '/venv/bin/python'
sys.path.insert(0, os.path.join(VERIF, 'tools'))

import gen as G
from py2coq import eval_expr, eval_cond, coq_num, coq_name, Unsupported, def_conds, free_vars

COQ_ARGS = ['-Q', '.', 'EP', '-w',
            '-notation-overridden,-deprecated-hint-without-locality,-deprecated-instance-without-locality,'
            '-ambiguous-paths,-redundant-canonical-projection,-deprecated,-deprecated-hint-rewrite-without-locality']


def log(*a):
    print(*a, flush=True)


class Lock:
    def __enter__(self):
        os.makedirs(os.path.join(VERIF, 'build'), exist_ok=True)
        self.f = open(os.path.join(VERIF, 'build', '.lock'), 'w')
        fcntl.flock(self.f, fcntl.LOCK_EX)
        return self

    def __exit__(self, *a):
        fcntl.flock(self.f, fcntl.LOCK_UN)
        self.f.close()


# ------------------------------------------------------------------ translation
def run_translator(groups):
    """Regenerates coq/gen/<...>.v for the groups from /repo's working tree.
    returns {group: 'ok' | diagnostic}"""
    env = dict(os.environ, EXACTPACK_REPO=REPO)
    p = subprocess.run([sys.executable, os.path.join(VERIF, 'tools', 'translate.py')] + list(groups),
                       capture_output=True, text=True, env=env)
    rep = {}
    for line in p.stdout.splitlines():
        m = re.match(r'(\S+)\s+(.*)', line)
        if m:
            rep[m.group(1)] = m.group(2)
    for g in groups:
        rep.setdefault(g, 'ERROR: translator produced no report (%s)' % p.stderr[-500:])
    return rep


def load_gen(name):
    with open(os.path.join(COQ, 'gen', name + '.json')) as f:
        j = json.load(f)
    return j


# ------------------------------------------------------------------ audit of the development
FORBIDDEN = [r'\bAdmitted\b', r'\badmit\b', r'^\s*Axiom\b', r'^\s*Axioms\b', r'^\s*Parameter\b', r'^\s*Parameters\b', r'^\s*Conjecture\b', r'^\s*Hypothesis\b', r'^\s*Hypotheses\b',
             r'^\s*Variable\b', r'^\s*Variables\b', r'Admit Obligations', r'Unset Guard Checking', r'Unset Positivity Checking', r'Unset Universe Checking',
             r'bypass_check', r'-type-in-type', r'-impredicative-set']


def audit_sources():
    """scan every hand-written .v file of the development: no Admitted / admit / Axiom / Parameter / Conjecture, no Variable / Hypothesis outside a Section,
    no switched-off kernel checks.  Returns a list of 'file:line: text'."""
    bad = []
    for d in ('lib', 'model', 'spec', 'proofs', 'props', 'pending'):
        for f in sorted(glob.glob(os.path.join(COQ, d, '*.v'))):
            depth = 0
            incomment = 0
            for ln, line in enumerate(open(f), 1):
                # strip comments (nesting aware, good enough for this code base: no comment markers inside strings)
                out = ''
                i = 0
                while i < len(line):
                    if line.startswith('(*', i):
                        incomment += 1; i += 2
                    elif line.startswith('*)', i) and incomment:
                        incomment -= 1; i += 2
                    else:
                        if not incomment:
                            out += line[i]
                        i += 1
                if re.match(r'^\s*Section\b', out):
                    depth += 1
                elif re.match(r'^\s*End\b', out) and depth:
                    depth -= 1
                for pat in FORBIDDEN:
                    if re.search(pat, out):
                        if re.search(r'Variable|Hypothes', pat) and depth > 0:
                            continue
                        bad.append('%s:%d: %s' % (os.path.relpath(f, COQ), ln, out.strip()[:120]))
    for extra in ('_CoqProject',):
        pth = os.path.join(COQ, extra)
        if os.path.exists(pth):
            for ln, line in enumerate(open(pth), 1):
                if re.search(r'-type-in-type|-impredicative-set|-noinit', line):
                    bad.append('%s:%d: %s' % (extra, ln, line.strip()))
    return bad


# ------------------------------------------------------------------ which generated files does a theorem file need?
def gen_requirements(files):
    """transitive closure of `From EP Require Import ...` starting from the given coq-relative .v files: names X of every gen.X reached"""
    seen, need = set(), set()
    todo = list(files)
    while todo:
        f = todo.pop()
        if f in seen:
            continue
        seen.add(f)
        pth = os.path.join(COQ, f)
        if not os.path.exists(pth):
            continue
        txt = open(pth).read()
        for m in re.finditer(r'From\s+EP\s+Require\s+(?:Import|Export)\s+([^.]*(?:\.[A-Za-z_][^.]*)*?)\.\s', txt + ' '):
            for tok in m.group(1).split():
                if '.' not in tok:
                    continue
                d, nm = tok.split('.', 1)
                if d == 'gen':
                    need.add(nm)
                elif d in ('lib', 'model', 'spec', 'proofs', 'props', 'pending'):
                    todo.append('%s/%s.v' % (d, nm))
    return need


def groups_for(gen_names):
    """translation groups that produce the given coq/gen files (tools/gen_index.json, refreshed from the translator when a name is unknown)"""
    ip = os.path.join(VERIF, 'tools', 'gen_index.json')
    idx = json.load(open(ip)) if os.path.exists(ip) else {}
    if any(n not in idx for n in gen_names):
        try:
            import translate
            for g, f in translate.GROUPS.items():
                try:
                    for fn in f():
                        idx[fn] = g
                except Exception:
                    pass
        except Exception:
            pass
    return [idx[n] for n in sorted(gen_names) if n in idx]


# ------------------------------------------------------------------ coq build
def write_coqproject():
    files = []
    for d in ('lib', 'spec', 'gen', 'model', 'proofs', 'props', 'cases', 'pending'):
        files += sorted(glob.glob(os.path.join(COQ, d, '*.v')))
    txt = '-Q . EP\n' + '-arg -w -arg ' + COQ_ARGS[-1] + '\n' + '\n'.join(os.path.relpath(f, COQ) for f in files) + '\n'
    p = os.path.join(COQ, '_CoqProject')
    if not os.path.exists(p) or open(p).read() != txt:
        with open(p, 'w') as f:
            f.write(txt)
    subprocess.run(['coq_makefile', '-f', '_CoqProject', '-o', 'Makefile'], cwd=COQ, capture_output=True, text=True)


def coq_make(targets, timeout=3000, jobs=16):
    """make -k the given .vo targets. Returns (ok_targets, failed {target: error text})."""
    write_coqproject()
    t0 = time.time()
    p = subprocess.run(['timeout', str(timeout), 'make', '-k', '-j%d' % jobs] + targets, cwd=COQ,
                       capture_output=True, text=True)
    out = p.stdout + '\n' + p.stderr
    failed = {}
    for t in targets:
        if not os.path.exists(os.path.join(COQ, t)) or os.path.getmtime(os.path.join(COQ, t)) < t0 - 1e9:
            failed[t] = ''
    # attribute error text to files
    errs = {}
    cur = None
    for line in out.splitlines():
        m = re.match(r'File "\./([^"]+)", line (\d+)', line)
        if m:
            cur = m.group(1)
            errs.setdefault(cur, [])
        if cur:
            errs[cur].append(line)
    bad_files = {}
    for f, lines in errs.items():
        text = '\n'.join(lines)
        if 'Error' in text:
            bad_files[f] = text[-3000:]
    if p.returncode == 124:
        bad_files['<timeout>'] = 'make timed out after %ds' % timeout
    ok = [t for t in targets if os.path.exists(os.path.join(COQ, t))]
    missing = [t for t in targets if t not in ok]
    return ok, missing, bad_files, out


def clean_stale(vfiles):
    """remove .vo of the given .v files so that make must rebuild them"""
    for v in vfiles:
        base = v[:-2]
        for ext in ('.vo', '.vok', '.vos', '.glob'):
            try:
                os.remove(os.path.join(COQ, base + ext))
            except OSError:
                pass


def theorems_in(vfile):
    """names of Theorem statements in a props file, with their Print Assumptions presence"""
    txt = open(os.path.join(COQ, vfile)).read()
    return re.findall(r'^\s*Theorem\s+([A-Za-z0-9_\']+)', txt, re.M)


def assumptions_from_output(out):
    """parse Print Assumptions output: set of axiom names"""
    ax = set()
    for m in re.finditer(r'^([A-Za-z_][A-Za-z0-9_\.\']*)\s*:', out, re.M):
        nm = m.group(1)
        if '.' in nm or nm in ('sig_forall_dec', 'sig_not_dec', 'functional_extensionality_dep', 'classic'):
            ax.add(nm)
    return ax


def coqc_capture(vfile, timeout=1200):
    p = subprocess.run(['timeout', str(timeout), 'coqc'] + COQ_ARGS + [vfile], cwd=COQ, capture_output=True, text=True)
    return p.returncode, p.stdout + p.stderr


# ------------------------------------------------------------------ real implementation
def run_real(script, payload, timeout=600):
    """run python code against the real implementation in a fresh interpreter.
    `script` is source text defining main(payload) -> jsonable."""
    env = dict(os.environ, PYTHONPATH=REPO, PYTHONHASHSEED='0', MPLBACKEND='Agg')
    env.setdefault('LANL_EXACTPACK_VERIF', '1')
    prog = ("import sys, json, warnings\nwarnings.filterwarnings('ignore')\nimport numpy as np\n"
            "np.seterr(all='ignore')\n" + script +
            "\nif __name__ == '__main__':\n    payload = json.load(sys.stdin)\n    out = main(payload)\n"
            "    sys.stdout.write('\\n@@RESULT@@' + json.dumps(out))\n")
    p = subprocess.run([PY, '-c', prog], input=json.dumps(payload), capture_output=True, text=True, env=env,
                       timeout=timeout, cwd=REPO)
    if '@@RESULT@@' not in p.stdout:
        raise RuntimeError('real-implementation runner failed:\n' + p.stdout[-2000:] + p.stderr[-4000:])
    return json.loads(p.stdout.split('@@RESULT@@')[1])


CALL_SOLVER = r'''
import importlib
def call_one(modname, clsname, params, pts, t):
    mod = importlib.import_module(modname)
    cls = getattr(mod, clsname)
    try:
        s = cls(**params)
    except Exception as ex:
        return {'init_error': type(ex).__name__, 'msg': str(ex)[:200]}
    try:
        sol = s(np.array(pts, dtype=float), t)
    except Exception as ex:
        return {'run_error': type(ex).__name__, 'msg': str(ex)[:200]}
    out = {'names': list(sol.dtype.names), 'cols': {}}
    for n in sol.dtype.names:
        out['cols'][n] = [float(v) for v in np.asarray(sol[n], dtype=float)]
    return out
def main(payload):
    return [call_one(c['module'], c['class'], c['params'], c['pts'], c['t']) for c in payload]
'''


def call_solvers(cases):
    res = run_real(CALL_SOLVER, cases)
    # json turns NaN into NaN literal (python json allows it)
    return res


# ------------------------------------------------------------------ sampling
def frac(x):
    return Fraction(x)   # exact value of the double


def qlit(x):
    """Coq literal for the exact value of double x"""
    return coq_num(Fraction(x))


def sample_params(rng, cj, spec=None, tries=400):
    """rejection-sample an admissible parameter set for class-json cj.
    spec: {param: (lo,hi) | [choices] | callable(rng)}"""
    spec = spec or {}
    init_ok = G.expr_from_json(cj['init_ok'])
    for _ in range(tries):
        p = {}
        for name in cj['params']:
            s = spec.get(name)
            if callable(s):
                p[name] = s(rng)
            elif isinstance(s, tuple):
                p[name] = round(rng.uniform(*s), 6)
            elif isinstance(s, list):
                p[name] = rng.choice(s)
            elif name == 'geometry':
                p[name] = rng.choice([1, 2, 3])
            else:
                d = cj['defaults'].get(name)
                dv = float(eval_expr(G.expr_from_json(d), {})) if d is not None else 1.0
                if dv == 0:
                    p[name] = round(rng.uniform(-1, 1), 6)
                else:
                    p[name] = round(dv * rng.uniform(0.5, 1.6), 6)
        try:
            if eval_cond(init_ok, {k: float(v) for k, v in p.items()}):
                return p
        except (ZeroDivisionError, ValueError, OverflowError):
            pass
    raise RuntimeError('could not sample admissible parameters for %s' % cj['class'])


def guard_margins(e, env, acc):
    """collect |lhs-rhs| of every comparison evaluated on the path taken (distance to a branch switch)"""
    t = e[0]
    if t in ('num', 'var', 'pi', 'nan', 'sum'):
        return
    if t == 'if':
        cond_margins(e[1], env, acc)
        if eval_cond(e[1], env):
            guard_margins(e[2], env, acc)
        else:
            guard_margins(e[3], env, acc)
        return
    for x in e[1:]:
        if isinstance(x, tuple):
            guard_margins(x, env, acc)


def cond_margins(c, env, acc):
    if c[0] in ('and', 'or'):
        cond_margins(c[1], env, acc)
        cond_margins(c[2], env, acc)
    elif c[0] == 'not':
        cond_margins(c[1], env, acc)
    elif c[0] in ('true', 'false'):
        pass
    else:
        a, b = eval_expr(c[1], env), eval_expr(c[2], env)
        acc.append(abs(a - b) / (abs(a) + abs(b) + 1e-300))


def conds_hold(e, env):
    for path, c in def_conds(e):
        try:
            if eval_cond(path, env) and not eval_cond(c, env):
                return False
        except (ZeroDivisionError, ValueError, OverflowError):
            return False
    return True


# ------------------------------------------------------------------ correspondence (generated class models)
CASE_HEADER = """(* GENERATED correspondence cases: the real implementation's outputs (doubles, exact
   rationals) against the Coq model, decided by the Interval tactic. *)
From Coq Require Import Reals Lra.
From Interval Require Import Tactic.
From EP Require Import lib.Base lib.Corr %s.
Open Scope R_scope.
"""


def class_corr_cases(rng, genfile, pfx, n, spec=None, rt_sampler=None, tol=1e-9):
    """Draw n admissible (params, r, t), run the real class, return list of coq goals + stats.
    Each goal: |model - real| <= tol*|real| + tiny."""
    cj = load_gen(genfile)[pfx]
    fields = [(nm, G.expr_from_json(e)) for nm, e in cj['fields']]
    dom = G.expr_from_json(cj['dom'])
    modname = cj['module'][:-3].replace('/', '.')
    cases = []
    envs = []
    attempts = 0
    while len(cases) < n and attempts < 60 * n:
        attempts += 1
        p = sample_params(rng, cj, spec)
        if rt_sampler:
            r, t = rt_sampler(rng, p)
        else:
            r, t = round(rng.uniform(0.05, 3.0), 6), round(rng.uniform(0.05, 2.0), 6)
        env = {k: float(v) for k, v in p.items()}
        env.update({'r': r, 't': t})
        try:
            if not eval_cond(dom, env):
                continue
            ok = True
            marg = []
            for nm, e in fields:
                if not conds_hold(e, env):
                    ok = False
                    break
                guard_margins(e, env, marg)
                v = eval_expr(e, env)
                if not (abs(v) < 1e200):
                    ok = False
                    break
            if not ok or (marg and min(marg) < 1e-3):
                continue
        except (ZeroDivisionError, ValueError, OverflowError):
            continue
        cases.append({'module': modname, 'class': cj['class'], 'params': p, 'pts': [r], 't': t})
        envs.append(env)
    if len(cases) < n:
        raise RuntimeError('correspondence sampler for %s produced only %d cases' % (pfx, len(cases)))
    res = call_solvers(cases)
    goals = []
    disagreements = []
    for case, env, out in zip(cases, envs, res):
        if 'cols' not in out:
            disagreements.append({'case': case, 'real': out, 'why': 'real implementation raised on an input the model admits'})
            continue
        if out['names'] != [nm for nm, _ in fields]:
            disagreements.append({'case': case, 'real_names': out['names'], 'model_names': [nm for nm, _ in fields],
                                  'why': 'field names differ'})
            continue
        args = ' '.join(qlit(float(case['params'][k])) for k in cj['params'])
        seen = {}
        for i, (nm, e) in enumerate(fields):
            v = out['cols'][nm][0]
            cn = coq_name(nm)
            if cn in seen:
                cn = '%s_%d' % (cn, i)
            seen[cn] = 1
            mv = eval_expr(e, env)
            if v != v or abs(v) == float('inf'):
                disagreements.append({'case': case, 'field': nm, 'real': repr(v), 'model': mv, 'why': 'real output is not finite'})
                continue
            # IR-level comparison first (cheap, and gives a readable disagreement)
            if abs(mv - v) > 1e-9 * abs(v) + 1e-12 * (1 + abs(mv)) * 0 + 1e-300 and abs(mv - v) > 1e-9 * max(abs(v), abs(mv)):
                disagreements.append({'case': case, 'field': nm, 'real': v, 'model': mv, 'why': 'model and implementation differ'})
                continue
            goals.append('Goal Rabs (%s_%s %s %s %s - %s) <= %s.\nProof. corr_solve. Qed.' % (
                pfx, cn, args, qlit(case['pts'][0]), qlit(case['t']), qlit(v),
                coq_num(Fraction(tol).limit_denominator(10**15) * abs(Fraction(v)) + Fraction(1, 10**200))))
    return goals, disagreements, cases


def write_case_files(name, imports, goals, per_file=60):
    """writes coq/cases/<name>_<k>.v; returns list of relative .v paths"""
    name = re.sub(r'\W', '_', name)
    os.makedirs(os.path.join(COQ, 'cases'), exist_ok=True)
    for old in glob.glob(os.path.join(COQ, 'cases', name + '_*.v*')) + glob.glob(os.path.join(COQ, 'cases', '.' + name + '_*.aux')):
        os.remove(old)
    for old in glob.glob(os.path.join(COQ, 'cases', name + '_*.glob')):
        os.remove(old)
    files = []
    for k in range(0, len(goals), per_file):
        fn = os.path.join('cases', '%s_%d.v' % (name, k // per_file))
        with open(os.path.join(COQ, fn), 'w') as f:
            f.write(CASE_HEADER % imports)
            f.write('\n'.join(goals[k:k + per_file]) + '\n')
        files.append(fn)
    return files


# ------------------------------------------------------------------ evidence / verdict
class Report:
    def __init__(self, prop, tier, seed):
        self.prop = prop
        self.tier = tier
        self.seed = seed
        self.t0 = time.time()
        self.obligations = []      # (name, kind, ok:bool, detail)
        self.violations = []       # (replay path, note)
        self.known = []            # strings
        self.samples = []
        self.trusted = set()
        self.assumptions = []
        self.extra = {}
        self.corr_goals = 0
        self.corr_ok = 0

    def oblige(self, name, kind, ok, detail=''):
        self.obligations.append((name, kind, bool(ok), detail))

    def write_replay(self, tag, data):
        os.makedirs(os.path.join(VERIF, 'replays'), exist_ok=True)
        h = hashlib.sha1(json.dumps(data, sort_keys=True, default=str).encode()).hexdigest()[:10]
        path = os.path.join(VERIF, 'replays', '%s_%s_%s.json' % (self.prop, tag, h))
        with open(path, 'w') as f:
            json.dump(data, f, indent=1, default=str)
        return path

    def violation(self, tag, data, found_input=True):
        data = dict(data)
        data['property'] = self.prop
        path = self.write_replay(tag, data)
        self.violations.append((path, found_input))

    def finish(self):
        wall = time.time() - self.t0
        n = len(self.obligations)
        d = sum(1 for o in self.obligations if o[2])
        ev = {
            'property_id': self.prop, 'tier': self.tier, 'seed': self.seed, 'level': 'proof',
            'coverage': {
                'obligations': n, 'discharged': d,
                'checker_cmd': 'coqc 8.16.1 (full .vo build via coq_makefile; `make -k` in /verif/coq) ; ./check %s --tier %s' % (self.prop, self.tier),
                'trusted_base': sorted(self.trusted),
                'samples': self.samples[:40],
                'obligation_list': [{'name': o[0], 'kind': o[1], 'ok': o[2], 'detail': o[3][:300]} for o in self.obligations],
                'correspondence_goals': self.corr_goals, 'correspondence_proved': self.corr_ok,
            },
            'assumptions': self.assumptions,
            'wall_s': round(wall, 2),
            'violations': len(self.violations),
        }
        ev['coverage'].update(self.extra)
        # VERIF_EVIDENCE_DIR: scratch location used when a check is exercised against a deliberately broken tree (seeded changes),
        # so that the committed evidence always comes from a run on /repo as it is
        evdir = os.environ.get('VERIF_EVIDENCE_DIR') or os.path.join(VERIF, 'evidence')
        os.makedirs(evdir, exist_ok=True)
        with open(os.path.join(evdir, self.prop + '.json'), 'w') as f:
            json.dump(ev, f, indent=1, default=str)
        for k in self.known:
            log('KNOWN-FINDING: property=%s %s' % (self.prop, k))
        for path, found in self.violations:
            log('VIOLATION property=%s replay=%s%s' % (self.prop, path, '' if found else ' no-failing-input-found'))
        log('%s: %d/%d obligations discharged, %d correspondence goals, %d violations, %.1fs' % (
            self.prop, d, n, self.corr_goals, len(self.violations), wall))
        return 1 if self.violations else 0
