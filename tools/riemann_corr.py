#!/usr/bin/env python3
"""Correspondence between the hand-written Coq model of the ideal-gas Riemann driver (coq/model/RiemannIG.v)
and the real implementation: wave pattern, star pressure residual, wave positions and the four fields at
user points, all decided inside Coq (Interval)."""
import os
from fractions import Fraction

import harness as H
from harness import qlit
from py2coq import coq_num

REAL = r'''
from exactpack.solvers.riemann.ep_riemann import IGEOS_Solver
from exactpack.solvers.riemann import riemann
def main(payload):
    out = []
    for c in payload:
        P = c['params']
        try:
            s = IGEOS_Solver(**P)
            sol = s(np.array(c['xs'], dtype=float), c['t'])
            prob = riemann.RiemannIGEOS(xmin=P['xmin'], xd0=P['xd0'], xmax=P['xmax'], t=c['t'], rl=P['rl'], ul=P['ul'], pl=P['pl'],
                                        gl=P['gl'], rr=P['rr'], ur=P['ur'], pr=P['pr'], gr=P['gr'])
            prob.driver(np.array(c['xs'], dtype=float))
            out.append({'px': float(prob.px), 'type': prob.soln_type, 'Xregs': [float(v) for v in prob.Xregs],
                        'fields': {n: [float(v) for v in sol[n]] for n in ('pressure', 'density', 'velocity', 'specific_internal_energy')}})
        except Exception as ex:
            out.append({'error': type(ex).__name__ + ': ' + str(ex)[:200]})
    return out
'''

PAT = {'shock-contact-shock-SCS': 'SCS', 'shock-contact-rarefaction-SCR': 'SCR',
       'rarefaction-contact-shock-RCS': 'RCS', 'rarefaction-contact-rarefaction-RCR': 'RCR'}

HEADER = """(* GENERATED correspondence cases for the ideal-gas Riemann driver model. *)
From Coq Require Import Reals Lra List.
From Interval Require Import Tactic.
From EP Require Import lib.Base lib.Corr gen.Riemann model.RiemannIG.
Open Scope R_scope.

Ltac rie_unfold :=
  unfold ig_p, ig_rho, ig_u, ig_e, ig_regions, star1, star2, const_region, fanL_region, fanR_region, X, ig_Xregs,
    ig_Vregs, ig_classify, ig_call, ig_ux, ig_ax1, ig_ax2, ig_rx1, ig_rx2, ig_ul_tilde, ig_al, ig_ar, overwrite;
  cbn [fold_left map nth edge f_p f_r f_u f_e]; autounfold with epgen.
"""


def sample_problem(rng):
    """left/right states covering all four wave patterns, unequal velocities and gammas"""
    kind = rng.choice(['any', 'any', 'sod', 'strongL', 'collide', 'expand'])
    pl, pr = round(rng.uniform(0.2, 3.0), 4), round(rng.uniform(0.2, 3.0), 4)
    rl, rr = round(rng.uniform(0.2, 3.0), 4), round(rng.uniform(0.2, 3.0), 4)
    ul, ur = round(rng.uniform(-1.0, 1.0), 4), round(rng.uniform(-1.0, 1.0), 4)
    if kind == 'sod':
        pl, pr, ul, ur = 1.0, 0.1, 0.0, 0.0
    elif kind == 'strongL':
        pl = round(rng.uniform(3, 8), 4)
    elif kind == 'collide':
        ul, ur = round(rng.uniform(0.5, 1.5), 4), round(rng.uniform(-1.5, -0.5), 4)
    elif kind == 'expand':
        ul, ur = round(rng.uniform(-0.8, -0.2), 4), round(rng.uniform(0.2, 0.8), 4)
    gl, gr = round(rng.uniform(1.2, 2.0), 3), round(rng.uniform(1.2, 2.0), 3)
    if rng.random() < 0.4:
        gr = gl
    xd0 = round(rng.uniform(-0.5, 1.0), 3)
    return {'xmin': xd0 - 2.0, 'xd0': xd0, 'xmax': xd0 + 2.0, 't': 0.25, 'pl': pl, 'rl': rl, 'ul': ul, 'gl': gl,
            'pr': pr, 'rr': rr, 'ur': ur, 'gr': gr}


def cases(rng, n, npts=5, fan_sides=False):
    probs = []
    for _ in range(n):
        P = sample_problem(rng)
        t = round(rng.uniform(0.05, 0.4), 4)
        xs = sorted(round(P['xd0'] + rng.uniform(-1.5, 1.5), 5) for _ in range(npts))
        probs.append({'params': P, 't': t, 'xs': xs})
    res = H.run_real(REAL, probs)
    goals = []
    dis = []
    stats = {}
    kept = []
    for c, o in zip(probs, res):
        if 'error' in o:
            if 'not ready' in o['error'] or 'UnboundLocalError' in o['error'] or 'f(a) and f(b)' in o['error']:
                stats['unsupported_or_no_bracket'] = stats.get('unsupported_or_no_bracket', 0) + 1
                continue
            dis.append({'case': c, 'real': o, 'why': 'real implementation raised'})
            continue
        pat = PAT.get(o['type'])
        if pat is None:
            continue
        stats[pat] = stats.get(pat, 0) + 1
        P = c['params']
        st = ' '.join(qlit(P[k]) for k in ('pl', 'rl', 'ul', 'gl', 'pr', 'rr', 'ur', 'gr'))
        px = qlit(o['px'])
        goals.append('Goal ig_classify %s = %s.\nProof. rie_unfold. resolve_ifs; reflexivity. Qed.' % (st, pat))
        scale = max(abs(P['ul']), abs(P['ur']), 1.0)
        goals.append('Goal Rabs (ig_call %s %s %s) <= %s.\nProof. rie_unfold. corr_solve. Qed.' % (
            st, pat, px, coq_num(Fraction(scale) * Fraction(1, 10**8))))
        if fan_sides:
            # hypothesis of the conservation theorem (C04): behind a fan the star pressure does not exceed the pressure ahead of it
            if pat in ('RCS', 'RCR'):
                goals.append('Goal %s <= %s.\nProof. lra. Qed.' % (px, qlit(P['pl'])))
            if pat in ('SCR', 'RCR'):
                goals.append('Goal %s <= %s.\nProof. lra. Qed.' % (px, qlit(P['pr'])))
        for i, xe in enumerate(o['Xregs']):
            goals.append('Goal Rabs (X %s %s %s %s %s %d%%nat - %s) <= %s.\nProof. rie_unfold. corr_solve. Qed.' % (
                st, pat, px, qlit(P['xd0']), qlit(c['t']), i, qlit(xe), coq_num(Fraction(1, 10**8) * (1 + abs(Fraction(xe))))))
        for j, x in enumerate(c['xs']):
            # keep points away from wave edges (the star pressure is only known to bisect's tolerance)
            if min(abs(x - e) for e in o['Xregs']) < 1e-3:
                continue
            for fld, fn in (('ig_p', 'pressure'), ('ig_rho', 'density'), ('ig_u', 'velocity'), ('ig_e', 'specific_internal_energy')):
                v = o['fields'][fn][j]
                goals.append('Goal Rabs (%s %s %s %s %s %s %s - %s) <= %s.\nProof. rie_unfold. corr_solve. Qed.' % (
                    fld, st, pat, px, qlit(P['xd0']), qlit(c['t']), qlit(x), qlit(v),
                    coq_num(Fraction(1, 10**8) * (abs(Fraction(v)) + Fraction(1, 100)))))
        kept.append(c)
    return goals, dis, stats, kept


def write(name, goals, per_file=40):
    import glob
    os.makedirs(os.path.join(H.COQ, 'cases'), exist_ok=True)
    for old in glob.glob(os.path.join(H.COQ, 'cases', name + '_*')):
        os.remove(old)
    files = []
    for k in range(0, len(goals), per_file):
        fn = os.path.join('cases', '%s_%d.v' % (name, k // per_file))
        with open(os.path.join(H.COQ, fn), 'w') as f:
            f.write(HEADER + '\n'.join(goals[k:k + per_file]) + '\n')
        files.append(fn)
    return files


def unit_corr(rng, tier, prop, fan_sides=False):
    n = 6 if tier == 'quick' else 40
    goals, dis, stats, kept = cases(rng, n, fan_sides=fan_sides)
    files = write('%s_riemannIG' % prop, goals)
    sample = dict(kept[0], patterns_hit=stats) if kept else None
    return files, len(goals), dis, sample


def unit_corr_c04(rng, tier, prop):
    return unit_corr(rng, tier, prop, fan_sides=True)
