#!/usr/bin/env python3
"""correspondence of gen/Sdrz.v with the real SteadyDetonationReactionZone.run_tvec (state as a function of the reaction progress)"""
import json
import os
from fractions import Fraction
import harness as H
from harness import qlit
from py2coq import coq_num

REAL = r'''
from exactpack.solvers.sdrz import SteadyDetonationReactionZone as S
def main(payload):
    out = []
    for c in payload:
        try:
            s = S(**c['params'])
            sol = s.run_tvec(np.array(c['tvec'], float))
            out.append({k: [float(v) for v in sol[k]] for k in ('pressure', 'velocity', 'density', 'sound_speed', 'reaction_progress')})
        except Exception as ex:
            out.append({'error': type(ex).__name__ + ': ' + str(ex)[:200]})
    return out
'''


def unit_corr(rng, tier, prop):
    js = json.load(open(os.path.join(H.COQ, 'gen', 'Sdrz.json')))
    n = 3 if tier == 'quick' else 20
    cases = []
    for _ in range(n):
        P = {'D': float('%.4g' % rng.uniform(0.4, 1.5)), 'rho_0': float('%.4g' % rng.uniform(0.8, 2.5)), 'gamma': float('%.4g' % rng.uniform(1.5, 3.5))}
        cases.append({'params': P, 'tvec': sorted(float('%.4g' % rng.uniform(0.0, 1.3)) for _ in range(4))})
    res = H.run_real(REAL, cases)
    goals, dis = [], []
    for c, o in zip(cases, res):
        if 'error' in o:
            dis.append({'case': c, 'real': o, 'why': 'real implementation raised'})
            continue
        for i, lam in enumerate(o['reaction_progress']):
            env = dict(c['params'], lam=lam)
            for nm, k in (('sdrz_p', 'pressure'), ('sdrz_u', 'velocity'), ('sdrz_rho', 'density'), ('sdrz_cs', 'sound_speed')):
                v = o[k][i]
                args = ' '.join(qlit(env[a]) for a in js[nm]['args'])
                tol = Fraction(1, 10 ** 9) * (abs(Fraction(v)) + Fraction(1, 1000))
                goals.append('Goal Rabs (%s %s - %s) <= %s.\nProof. autounfold with epgen. corr_solve. Qed.' % (nm, args, qlit(v), coq_num(tol)))
    files = H.write_case_files('%s_sdrz' % prop, 'gen.Sdrz', goals, per_file=30)
    return files, len(goals), dis, (cases[0] if cases else None)
