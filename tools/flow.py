#!/usr/bin/env python3
"""Generic check flow shared by all properties.

A property is a list of *units*.  A unit ties together
  - translator groups that must be regenerated from /repo,
  - property-theorem files (coq/props/*.v) whose compilation is the proof obligation,
  - correspondence specs (real implementation vs Coq model, decided inside Coq),
  - an oracle that searches the real implementation for a concrete failing input
    when an obligation or the correspondence no longer checks,
  - optionally known findings (refuted theorem + replay on the real code).
"""
import json
import os
import random
import re
import time

import harness as H
from harness import log


class Unit:
    def __init__(self, name, groups=(), props=(), corr=(), oracle=None, thorough_props=(), note='',
                 findings=(), always_oracle=False, custom_corr=None):
        self.name = name
        self.groups = list(groups)
        self.props = list(props)              # coq/props files (relative to coq/)
        self.thorough_props = list(thorough_props)
        self.corr = list(corr)                # list of dicts: gen, pfx, n, spec, rt
        self.oracle = oracle                  # callable(rng, tier, reason) -> list of failing-input dicts
        self.note = note
        # findings: dicts {id, refuted: props file with the machine-checked refutation, pending: file with the
        #   positive theorem (compiles only once the defect is repaired), replay: callable() -> dict or None
        #   (re-runs the witness on the REAL implementation; returns the observed failure or None)}
        self.findings = list(findings)
        self.custom_corr = custom_corr        # callable(rng, tier, prop) -> (case files, n goals, disagreements, sample)
        self.always_oracle = always_oracle    # no theorem covers this unit: the oracle is its only check (class C)


def load_known(prop):
    p = os.path.join(H.VERIF, 'KNOWN_FINDINGS.json')
    if not os.path.exists(p):
        return []
    with open(p) as f:
        data = json.load(f)
    return [k for k in data.get('findings', []) if k.get('property') == prop and k.get('status') == 'known']


def run_units(report, units, tier, rng, extra_after=None):
    """returns nothing; fills the report."""
    t0 = time.time()
    groups = []
    for u in units:
        for g in u.groups:
            if g not in groups:
                groups.append(g)
    # groups that the theorem files need through their imports but that the unit does not list (so that a check does not depend on what an earlier
    # check left in coq/gen): they are translated too; a failure there is attributed to the units whose files import them
    implied = {}
    for u in units:
        fl = u.props + u.thorough_props + [fd['refuted'] for fd in u.findings if fd.get('refuted')]
        for g in H.groups_for(H.gen_requirements(fl) | set(c['gen'] for c in u.corr)):
            if g not in u.groups:
                implied.setdefault(u.name, []).append(g)
                u.groups.append(g)
            if g not in groups:
                groups.append(g)
    report.extra['implied_groups'] = implied
    trep = H.run_translator(groups) if groups else {}
    bad_groups = {g: r for g, r in trep.items() if r != 'ok'}
    for g, r in trep.items():
        report.oblige('translate:' + g, 'translator', r == 'ok', r)
    report.extra['translator_groups'] = len(groups)

    # ---- correspondence cases (skipped for units whose translation stopped)
    case_files = {}
    corr_disagree = {}
    nper = {'quick': 1, 'thorough': 8}[tier]
    for u in units:
        if any(g in bad_groups for g in u.groups):
            continue
        goals_all = []
        imports = set()
        for c in u.corr:
            try:
                goals, dis, cases = H.class_corr_cases(rng, c['gen'], c['pfx'], c.get('n', 6) * nper,
                                                       c.get('spec'), c.get('rt'), c.get('tol', 1e-9))
            except Exception as ex:  # sampler failure = correspondence not established
                dis = [{'why': 'correspondence harness error: %s' % ex}]
                goals = []
                cases = []
            goals_all += [g.replace('Proof. corr_solve.', 'Proof. autounfold with epgen. corr_solve.') for g in goals]
            imports.add('gen.' + c['gen'])
            if dis:
                corr_disagree.setdefault(u.name, []).extend(dis)
            if cases:
                report.samples.append({'unit': u.name, 'correspondence_case': cases[0]})
        if u.custom_corr:
            try:
                files, ng, dis, sample = u.custom_corr(rng, tier, report.prop)
            except Exception as ex:
                files, ng, dis, sample = [], 0, [{'why': 'correspondence harness error: %r' % ex}], None
            case_files.setdefault(u.name, []).extend(files)
            report.corr_goals += ng
            if dis:
                corr_disagree.setdefault(u.name, []).extend(dis)
            if sample:
                report.samples.append({'unit': u.name, 'correspondence_case': sample})
        if goals_all:
            case_files.setdefault(u.name, []).extend(H.write_case_files('%s_%s' % (report.prop, u.name), ' '.join(sorted(imports)), goals_all))
            report.corr_goals += len(goals_all)

    # ---- build
    targets = []
    prop_files = []
    for u in units:
        if any(g in bad_groups for g in u.groups):
            continue
        fl = u.props + (u.thorough_props if tier == 'thorough' else []) + [fd['refuted'] for fd in u.findings if fd.get('refuted')]
        prop_files += fl
        targets += [f[:-2] + '.vo' for f in fl]
        targets += [f[:-2] + '.vo' for f in case_files.get(u.name, [])]
    H.clean_stale(prop_files)
    # two stages: the theorem files first (minutes), then the generated correspondence files (thousands of Interval goals in the thorough tier) -
    # a slow or loaded machine can then at worst leave case files unbuilt, never a theorem; generous limits: the timeout is a net for a hung tactic only
    lim = 7200 if tier == 'quick' else 21600
    prop_targets = [f[:-2] + '.vo' for f in prop_files]
    ok1, missing1, bad1, out1 = H.coq_make(prop_targets, timeout=lim) if prop_targets else ([], [], {}, '')
    rest = [t for t in targets if t not in prop_targets]
    ok2, missing2, bad2, out2 = H.coq_make(rest, timeout=lim) if rest else ([], [], {}, '')
    ok = list(ok1) + list(ok2); missing = list(missing1) + list(missing2); out = out1 + '\n' + out2
    bad_files = dict(bad1); bad_files.update(bad2)
    report.trusted |= H.assumptions_from_output(out)
    report.extra['build_s'] = round(time.time() - t0, 1)

    # ---- per-unit verdicts
    for u in units:
        reasons = []
        if any(g in bad_groups for g in u.groups):
            for g in u.groups:
                if g in bad_groups:
                    reasons.append({'kind': 'translator', 'what': g, 'detail': bad_groups[g]})
        else:
            fl = u.props + (u.thorough_props if tier == 'thorough' else [])
            for f in fl:
                vo = f[:-2] + '.vo'
                thms = H.theorems_in(f)
                good = vo in ok
                for th in thms:
                    report.oblige(th, 'theorem', good, f)
                if not good:
                    # find which file of the closure broke
                    culprit = [(bf, txt) for bf, txt in bad_files.items()]
                    reasons.append({'kind': 'proof', 'what': f, 'theorems': thms,
                                    'detail': '\n'.join('%s: %s' % (bf, txt[-800:]) for bf, txt in culprit)[-3000:]})
            ncase_ok = 0
            for f in case_files.get(u.name, []):
                vo = f[:-2] + '.vo'
                n = open(os.path.join(H.COQ, f)).read().count('\nGoal ')
                if vo in ok:
                    ncase_ok += n
                    report.corr_ok += n
                else:
                    reasons.append({'kind': 'correspondence', 'what': f, 'detail': bad_files.get(f, '')[-1500:]})
            if u.name in corr_disagree:
                reasons.append({'kind': 'correspondence', 'what': 'model vs implementation', 'detail': corr_disagree[u.name][:5]})
            known_ids = set(k['id'] for k in load_known(report.prop))
            for fd in u.findings:
                if not fd.get('refuted'):
                    # finding in code that is not modelled: identified by its replay on the real implementation only
                    try:
                        obs = fd['replay']()
                    except Exception as ex:
                        obs = None
                        report.extra.setdefault('replay_errors', []).append('%s: %r' % (fd['id'], ex))
                    if obs is not None and fd['id'] in known_ids:
                        report.known.append('%s %s' % (fd['id'], fd['what']))
                        report.samples.append({'known_finding': fd['id'], 'observed_on_real_code': obs})
                    elif obs is not None:
                        reasons.append({'kind': 'finding-not-listed', 'what': fd['id'], 'detail': obs})
                    else:
                        report.extra.setdefault('resolved_findings', []).append(fd['id'])
                    continue
                vo = fd['refuted'][:-2] + '.vo'
                thms = H.theorems_in(fd['refuted'])
                if vo in ok:
                    for th in thms:
                        report.oblige(th, 'refutation-theorem', True, fd['refuted'])
                    try:
                        obs = fd['replay']()
                    except Exception as ex:
                        obs = None
                        report.extra.setdefault('replay_errors', []).append('%s: %r' % (fd['id'], ex))
                    if obs is not None and fd['id'] in known_ids:
                        report.known.append('%s %s' % (fd['id'], fd['what']))
                        report.samples.append({'known_finding': fd['id'], 'observed_on_real_code': obs})
                    elif obs is not None:
                        reasons.append({'kind': 'finding-not-listed', 'what': fd['id'], 'detail': obs})
                    else:
                        reasons.append({'kind': 'correspondence', 'what': fd['id'],
                                        'detail': 'refutation theorem holds for the model but its witness does not fail on the real code'})
                else:
                    # the refutation no longer compiles: repaired, or changed into something else
                    pend_ok = False
                    if fd.get('pending'):
                        H.clean_stale([fd['pending']])
                        ok2, miss2, bad2, out2 = H.coq_make([fd['pending'][:-2] + '.vo'])
                        pend_ok = not miss2
                    if pend_ok:
                        report.oblige(fd['id'] + ':positive-theorem', 'theorem', True, fd['pending'])
                        report.extra.setdefault('resolved_findings', []).append(fd['id'])
                    else:
                        for th in thms:
                            report.oblige(th, 'refutation-theorem', False, fd['refuted'])
                        reasons.append({'kind': 'proof', 'what': fd['refuted'],
                                        'detail': 'neither the recorded refutation nor the positive theorem checks: ' + bad_files.get(fd['refuted'], '')[-1200:]})
        if reasons:
            handle_failure(report, u, reasons, tier, rng)
        elif (tier == 'thorough' or u.always_oracle) and u.oracle:
            # cross-check of the unmodelled glue around the proved core
            try:
                fails = u.oracle(rng, tier, None)
            except Exception as ex:
                fails = []
                report.extra.setdefault('oracle_errors', []).append('%s: %s' % (u.name, ex))
            for fi in fails[:3]:
                report.violation(u.name, {'unit': u.name, 'reason': 'oracle found a failing input although all obligations check',
                                          'failing_input': fi})
    # ---- audit: nothing admitted, no axiom declared, no kernel check switched off anywhere in the hand-written development
    bad = H.audit_sources()
    report.oblige('development-audit: no Admitted / admit / Axiom / Parameter / Conjecture / open Variable, no disabled kernel check', 'audit', not bad, '; '.join(bad[:5]))
    if bad:
        report.violation('audit', {'unit': 'audit', 'broken': [{'kind': 'audit', 'what': 'coq development', 'detail': bad[:20]}],
                                   'note': 'the development no longer meets the rules of the technique: the theorems cannot be relied on'}, found_input=False)
    if extra_after:
        extra_after(report, ok, bad_files, out)


def handle_failure(report, u, reasons, tier, rng):
    """An obligation / correspondence / translation for unit u broke: search for a failing input."""
    fails = []
    err = None
    if u.oracle:
        try:
            fails = u.oracle(rng, tier, reasons)
        except Exception as ex:
            err = repr(ex)
    data = {'unit': u.name, 'broken': reasons, 'oracle_error': err}
    if fails:
        data['failing_input'] = fails[0]
        data['more_failing_inputs'] = fails[1:4]
        report.violation(u.name, data, found_input=True)
    else:
        data['note'] = ('no concrete failing input found by the search; the theorem/correspondence named in '
                        '`broken` no longer checks, so the property is no longer shown to hold')
        report.violation(u.name, data, found_input=False)
