#!/usr/bin/env python3
"""C14: correspondence between the real Rectangle solver and gen/Rectangle.v, decided inside Coq (double series unrolled for a small Nsum, Interval)."""
import json
import os
from fractions import Fraction
import harness as H
from harness import qlit
from py2coq import coq_num

REAL = r'''
from exactpack.solvers.heat import Rectangle
def main(payload):
    out = []
    for c in payload:
        try:
            s = Rectangle(**c['params'])
            sol = s(np.array([c['xs'], c['ys']], dtype=float), c['t'])
            out.append([float(v) for v in sol['temperature']])
        except Exception as ex:
            out.append({'error': type(ex).__name__ + ': ' + str(ex)[:200]})
    return out
'''

TACTIC = r"""
Ltac rect_unroll :=
  autounfold with epgen;
  repeat rewrite sum_range_0_INR; repeat rewrite sum_range_1_INR; cbn [sum_from Nat.sub];
  repeat rewrite sum_range_1_INR; cbn [sum_from Nat.sub];
  repeat rewrite altsign_INR; cbn [INR pow]; unfold sinh.
"""


def unit_corr(rng, tier, prop):
    js = json.load(open(os.path.join(H.COQ, 'gen', 'Rectangle.json')))
    r4 = lambda lo, hi: float('%.4g' % rng.uniform(lo, hi))
    cases = []
    for i in range(2 if tier == 'quick' else 8):
        p = dict(kappa=r4(0.5, 2), a=r4(0.8, 2.5), b=r4(0.8, 2.5), Ttop=r4(0.5, 3), Nsum=rng.choice([2, 3]))
        xs = [0.0, r4(0.1, 0.9) * p['a'], p['a'], r4(0.1, 0.9) * p['a']]
        ys = [r4(0.1, 0.9) * p['b'], r4(0.1, 0.9) * p['b'], r4(0.1, 0.9) * p['b'], 0.0]
        cases.append({'params': dict(p, NonHomogeneousOnly=(i % 2 == 1)), 'xs': xs, 'ys': ys, 't': r4(0.02, 0.2) * min(p['a'], p['b']) ** 2 / p['kappa']})
    res = H.run_real(REAL, cases)
    goals, dis = [], []
    for c, r in zip(cases, res):
        if isinstance(r, dict):
            dis.append({'case': c, 'real': r, 'why': 'real implementation raised'})
            continue
        p = c['params']
        val = lambda a: '(INR %d)' % p['Nsum'] if a == 'Nsum' else qlit(p[a])
        for x, y, v in zip(c['xs'], c['ys'], r):
            tol = Fraction(1, 10 ** 9) * (abs(Fraction(v)) + 1)
            if p['NonHomogeneousOnly']:
                head = 'rect_temperature_static_only %s %s %s' % (' '.join(val(a) for a in js['temperature']['static_params'] + ['Nsum']), qlit(x), qlit(y))
            else:
                head = 'rect_temperature %s %s %s %s' % (' '.join(val(a) for a in js['temperature']['args'][:-3]), qlit(x), qlit(y), qlit(c['t']))
            goals.append('Goal Rabs (%s - %s) <= %s.\nProof. rect_unroll. corr_solve. Qed.' % (head, qlit(v), coq_num(tol)))
    files = H.write_case_files('%s_rectangle' % prop, 'lib.Series gen.Rectangle', goals, per_file=8)
    for fn in files:
        pth = os.path.join(H.COQ, fn)
        s = open(pth).read().replace('Open Scope R_scope.\n', 'Open Scope R_scope.\n' + TACTIC, 1)
        open(pth, 'w').write(s)
    return files, len(goals), dis, (cases[0] if cases else None)


if __name__ == '__main__':
    import random
    print(unit_corr(random.Random(0), 'quick', 'CXX')[:3])
