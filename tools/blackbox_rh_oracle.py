#!/usr/bin/env python3
"""C02 failing-input search for the black-box-EOS Noh residuals, on the REAL residual classes: at random states (rho, e or P, D) and random
upstream states with NON-ZERO upstream pressure (planar symmetry, the only one that admits it) and every symmetry with P_0 = 0, the three
residual components are compared with the three Rankine-Hugoniot defects computed here from the textbook relations:
  F0 * (-D)      = mass defect          rho (0 - D) - rho1 (u0 - D)            (rho1 = rho0 (1 - u0/D)^symmetry: the converging pre-shock density)
  F1             = momentum defect      [p + rho (u - D)^2]      given F0 = 0
  F2 * rho * D   = energy defect        given F0 = F1 = 0
The states are constructed so that the lower-numbered residuals vanish (rho from the mass relation, P from the momentum relation)."""
import harness as H

REAL = r'''
import warnings
from exactpack.solvers.nohblackboxeos.equations_of_state import eos_library as L
from exactpack.solvers.nohblackboxeos.solution_tools import residual_functions as RF
def main(payload):
    out = []
    for c in payload:
        try:
            with warnings.catch_warnings():
                warnings.simplefilter('ignore')
                eos = {'ideal': lambda: L.ideal_gas_eos(c['g']), 'stiff': lambda: L.stiffened_gas_eos(c['g'], 0.7, 0.9), 'na': lambda: L.noble_abel_eos(c['g'], 0.05)}[c['eos']]()
                ic = c['ic']; u0, rho0, P0, sym = ic['velocity'], ic['density'], ic['pressure'], ic['symmetry']
                D = c['D']
                rho1 = rho0 * (1 - u0 / D) ** sym
                rho = rho1 * (1 - u0 / D)                       # mass
                P = P0 - rho * u0 * D                           # momentum
                e0 = float(eos.e(rho0, P0))
                o = {}
                for cls in ('pressure_noh_residual', 'energy_noh_residual'):
                    r = getattr(RF, cls)(ic, eos)
                    if cls.startswith('pressure'):
                        e = c['e_scale'] * float(eos.e(rho, P))     # any energy: F2 must equal the energy defect whatever e is
                        # pressure form takes P from the EOS: use the energy that reproduces the momentum-relation pressure, then perturb via e_scale on F2 only
                        ee = float(eos.e(rho, P))
                        F = [float(v) for v in r.F([rho, ee, D])]
                        Pm, em = float(eos.P(rho, ee)), ee
                    else:
                        F = [float(v) for v in r.F([rho, P, D])]
                        Pm, em = P, float(eos.e(rho, P))
                    m = rho * (0 - D)
                    mass = m - rho1 * (u0 - D)
                    mom = (m * 0 + Pm) - (rho1 * (u0 - D) * u0 + P0)
                    en = (m * (em + 0.0) + Pm * 0) - (rho1 * (u0 - D) * (float(r.e_0) + u0 ** 2 / 2) + P0 * u0)
                    scale = abs(m) * (abs(em) + u0 ** 2)
                    o[cls] = {'F': F, 'mass_defect': mass, 'momentum_defect': mom, 'energy_defect': en,
                              'F2_times_minus_rhoD_minus_energy_defect_rel': abs(F[2] * (-rho * D) - en) / scale,
                              'F1_minus_momentum_defect_rel': abs(F[1] - mom) / (abs(Pm) + abs(P0) + abs(m * u0)),
                              'F0_times_minus_D_minus_mass_defect_rel': abs(F[0] * (-D) - mass) / abs(m), 'e_0_matches_eos': abs(float(r.e_0) - e0) / (abs(e0) + 1e-300)}
                out.append(o)
        except Exception as ex:
            out.append({'error': type(ex).__name__ + ': ' + str(ex)[:200]})
    return out
'''


def cases(rng, n):
    out = []
    for i in range(n):
        sym = rng.choice([0, 0, 1, 2])
        p0 = round(rng.uniform(0.1, 2.0), 3) if sym == 0 and i % 3 != 2 else 0.0
        out.append({'eos': rng.choice(['ideal', 'stiff', 'na']), 'g': round(rng.uniform(1.2, 2.4), 3), 'D': round(rng.uniform(0.2, 1.5), 3), 'e_scale': 1.0,
                    'ic': {'velocity': -round(rng.uniform(0.5, 2), 3), 'density': round(rng.uniform(0.5, 2), 3), 'pressure': p0, 'symmetry': sym}})
    return out


def oracle(rng, tier, reasons):
    cs = cases(rng, (12 if tier == 'quick' else 60) * (3 if reasons else 1))
    res = H.run_real(REAL, cs, timeout=900)
    fails = []
    for c, r in zip(cs, res):
        if 'error' in r:
            continue
        for cls, o in r.items():
            bad = {k: v for k, v in o.items() if k.endswith('_rel') and v > 1e-9}
            if o['e_0_matches_eos'] > 1e-12:
                bad['e_0_matches_eos'] = o['e_0_matches_eos']
            if bad:
                fails.append({'class': 'exactpack.solvers.nohblackboxeos.solution_tools.residual_functions.' + cls, 'input': c,
                              'why': 'residual component differs from the Rankine-Hugoniot defect at a state that satisfies the lower-numbered relations', 'observed': bad,
                              'F': o['F']})
    return fails


if __name__ == '__main__':
    import random, sys, json
    for f in oracle(random.Random(int(sys.argv[1]) if len(sys.argv) > 1 else 0), 'quick', None)[:5]:
        print(json.dumps(f)[:500])
    print('done')
