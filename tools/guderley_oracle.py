#!/usr/bin/env python3
"""Oracles on the REAL Guderley solver: Euler residuals (finite differences, in Lazarus time and in the caller's time), jump conditions at the converging and the
reflected shock, ideal-gas relations; replays of the known finding `guderley-lazarus-time-units`."""
import harness as H

SCRIPT = r'''
import warnings
warnings.filterwarnings('ignore')
from exactpack.solvers.guderley.guderley import Guderley
from exactpack.solvers.guderley.eexp import eexp
from exactpack.solvers.guderley.ramsey import get_shock_position
FC = 0.750024322
_cache = {}
def consts(geom, gam):
    k = (geom, gam)
    if k not in _cache:
        lam = eexp(geom, gam); _cache[k] = (lam, get_shock_position(geom, gam, lam))
    return _cache[k]

def fields(s, r, t):
    o = s(np.array([r], dtype=float), t)
    return np.array([float(o[n][0]) for n in ('density', 'velocity', 'pressure', 'specific_internal_energy', 'sound_speed')])

def pde(c):
    geom, gam, rho0, r, tau = c['geometry'], c['gamma'], c['rho0'], c['r'], c['tau']
    lam, B = consts(geom, gam)
    s = Guderley(geometry=geom, gamma=gam, rho0=rho0)
    t = FC * (tau + 1.0)
    out = {'lambda': lam, 'B': B, 'x': tau / r ** lam}
    for h in (1e-4, 4e-4):
        dtau = (fields(s, r, t + h * FC) - fields(s, r, t - h * FC)) / (2 * h)       # per unit of Lazarus time
        dr = (fields(s, r + h, t) - fields(s, r - h, t)) / (2 * h)
        rho, u, p, e, cs = fields(s, r, t)
        res = {}
        for name, f in (('lazarus', 1.0), ('caller', 1.0 / FC)):
            dt = dtau * f
            mass = dt[0] + u * dr[0] + rho * dr[1] + (geom - 1) * rho * u / r
            mom = dt[1] + u * dr[1] + dr[2] / rho
            en = dt[3] + u * dr[3] + p / rho * (dr[1] + (geom - 1) * u / r)
            sm = abs(dt[0]) + abs(u * dr[0]) + abs(rho * dr[1]) + abs((geom - 1) * rho * u / r) + 1e-300
            sv = abs(dt[1]) + abs(u * dr[1]) + abs(dr[2] / rho) + 1e-300
            se = abs(dt[3]) + abs(u * dr[3]) + abs(p / rho * dr[1]) + abs(p / rho * (geom - 1) * u / r) + 1e-300
            res[name] = [abs(mass) / sm, abs(mom) / sv, abs(en) / se]
        out['h=%g' % h] = res
    out['state'] = [rho, u, p, e, cs]
    return out

def jumps(c):
    geom, gam, rho0, tau = c['geometry'], c['gamma'], c['rho0'], c['tau']
    lam, B = consts(geom, gam)
    s = Guderley(geometry=geom, gamma=gam, rho0=rho0)
    t = FC * (tau + 1.0)
    xs = -1.0 if tau < 0 else B
    rs = (tau / xs) ** (1.0 / lam)
    D = rs ** (1.0 - lam) / (lam * xs)          # d r_s / d tau
    d = 1e-7 * rs
    a = fields(s, rs - d, t); b = fields(s, rs + d, t)
    def fl(st, speed):
        rho, u, p, e, cs = st
        m = rho * (u - speed)
        return np.array([m, m * u + p, m * (e + u * u / 2) + p * u]), np.array([abs(rho * u) + abs(rho * speed), abs(m * u) + abs(p), abs(m) * (abs(e) + u * u / 2) + abs(p * u)])
    out = {'lambda': lam, 'B': B, 'shock_radius': rs, 'inside': [float(v) for v in a], 'outside': [float(v) for v in b]}
    for name, speed in (('lazarus', D), ('caller', D / FC)):
        fa, sa = fl(a, speed); fb, sb = fl(b, speed)
        out[name] = {'speed': speed, 'defect': [float(v) for v in np.abs(fa - fb) / (sa + sb + 1e-300)]}
    return out

def eos(c):
    geom, gam, rho0 = c['geometry'], c['gamma'], c['rho0']
    s = Guderley(geometry=geom, gamma=gam, rho0=rho0)
    worst = 0.0; where = None
    for r, tau in c['points']:
        rho, u, p, e, cs = fields(s, r, FC * (tau + 1.0))
        d1 = abs(p - (gam - 1) * rho * e) / (abs(p) + 1e-300) if p != 0 else abs(e)
        d2 = abs(cs * cs - gam * p / rho) / (cs * cs + 1e-300) if p != 0 else abs(cs)
        if max(d1, d2) > worst:
            worst = max(d1, d2); where = {'r': r, 'tau': tau, 'density': rho, 'pressure': p, 'specific_internal_energy': e, 'sound_speed': cs, 'defects': [d1, d2]}
    return {'worst': worst, 'where': where}

def placement(c):
    """where does the solver place the converging shock at t -+ dt?  (density jump located by grid refinement)"""
    geom, gam, rho0, t, dt = c['geometry'], c['gamma'], c['rho0'], c['t'], c['dt']
    s = Guderley(geometry=geom, gamma=gam, rho0=rho0)
    def locate(tt):
        a, b = 1e-3, 3.0
        for _ in range(9):
            rr = np.linspace(a, b, 41)
            den = np.asarray(s(rr, tt)['density'], float)
            i = int(np.argmax(den > 1.5 * rho0))
            a, b = rr[max(i - 1, 0)], rr[i]
        return 0.5 * (a + b), b - a
    r0, w0 = locate(t - dt); r1, w1 = locate(t + dt); rm, wm = locate(t)
    D = (r1 - r0) / (2 * dt)
    d = 1e-6 * rm
    ins = fields(s, rm - max(d, 2 * wm), t); outs = fields(s, rm + max(d, 2 * wm), t)
    m_in = ins[0] * (ins[1] - D); m_out = outs[0] * (outs[1] - D)
    return {'t': t, 'dt': dt, 'shock_radius': [r0, rm, r1], 'speed_from_placement': D, 'inside(rho,u,p,e,c)': [float(v) for v in ins], 'outside': [float(v) for v in outs],
            'mass_flux_inside': float(m_in), 'mass_flux_outside': float(m_out), 'relative_defect': float(abs(m_in - m_out) / (abs(m_in) + abs(m_out)))}

def main(payload):
    out = []
    for c in payload:
        try:
            out.append({'pde': pde, 'jumps': jumps, 'eos': eos, 'placement': placement}[c['what']](c))
        except Exception as ex:
            out.append({'error': type(ex).__name__ + ': ' + str(ex)[:200]})
    return out
'''

FC = 0.750024322
WITNESS = {'geometry': 3, 'gamma': 3.0, 'rho0': 1.0}


def _problems(rng, tier):
    gams = [3.0, 3.0, 2.0] if tier == 'quick' else [3.0, 2.0, 2.5, 1.8, 3.0, 2.2]
    out = []
    for g in gams:
        out.append({'geometry': rng.choice([2, 3]), 'gamma': g, 'rho0': float('%.4g' % rng.uniform(0.5, 2.5))})
    return out


def pde_oracle(rng, tier, reasons, thresh=2e-4):
    cases = []
    for P in _problems(rng, tier):
        for tau in (-rng.uniform(0.2, 0.9), rng.uniform(0.05, 0.3), rng.uniform(0.9, 2.5)):
            cases.append(dict(P, what='pde', r=float('%.4g' % rng.uniform(0.5, 1.6)), tau=float('%.4g' % tau)))
    res = H.run_real(SCRIPT, cases, timeout=(600 if tier == "quick" else 3000))
    fails = []
    for c, o in zip(cases, res):
        if 'error' in o:
            continue
        # noise shrinks with the step, a genuine violation does not: require both steps, and both readings of time (the caller-time reading is the known finding)
        worst = min(max(o['h=0.0001'][k]) for k in ('lazarus', 'caller'))
        worst2 = min(max(o['h=0.0004'][k]) for k in ('lazarus', 'caller'))
        if min(worst, worst2) > thresh:
            fails.append({'solver': 'Guderley', 'params': {k: c[k] for k in ('geometry', 'gamma', 'rho0')}, 'r': c['r'], 't': FC * (c['tau'] + 1), 'lazarus_time': c['tau'],
                          'similarity_coordinate': o['x'], 'normalised_residuals(mass,momentum,energy)': {k: o['h=0.0001'][k] for k in ('lazarus', 'caller')}})
    return fails


def jump_oracle(rng, tier, reasons, thresh=1e-5):
    cases = []
    for P in _problems(rng, tier):
        cases.append(dict(P, what='jumps', tau=-float('%.4g' % rng.uniform(0.2, 0.9))))
        cases.append(dict(P, what='jumps', tau=float('%.4g' % rng.uniform(0.2, 2.0))))
    res = H.run_real(SCRIPT, cases, timeout=(600 if tier == "quick" else 3000))
    fails = []
    for c, o in zip(cases, res):
        if 'error' in o:
            continue
        if min(max(o['lazarus']['defect']), max(o['caller']['defect'])) > thresh:
            fails.append({'solver': 'Guderley', 'params': {k: c[k] for k in ('geometry', 'gamma', 'rho0')}, 't': FC * (c['tau'] + 1), 'shock': 'converging' if c['tau'] < 0 else 'reflected',
                          'shock_radius': o['shock_radius'], 'state_inside': o['inside'], 'state_outside': o['outside'],
                          'normalised_jump_defects(mass,momentum,energy)': {k: o[k] for k in ('lazarus', 'caller')}})
    return fails


def eos_oracle(rng, tier, reasons, thresh=1e-9):
    cases = []
    for P in _problems(rng, tier):
        pts = [[float('%.4g' % rng.uniform(0.3, 1.8)), float('%.4g' % tau)] for tau in (-rng.uniform(0.2, 0.9), rng.uniform(0.05, 0.3), rng.uniform(0.9, 2.5), -2.0)]
        cases.append(dict(P, what='eos', points=pts))
    res = H.run_real(SCRIPT, cases, timeout=(600 if tier == "quick" else 3000))
    return [{'solver': 'Guderley', 'params': {k: c[k] for k in ('geometry', 'gamma', 'rho0')}, 'violation': o['where']}
            for c, o in zip(cases, res) if 'error' not in o and o['worst'] > thresh]


def replay_c01():
    """mass equation in the caller's time at a fixed point (geometry 3, gamma 3, r = 1.5, t = 0.3)"""
    o = H.run_real(SCRIPT, [dict(WITNESS, what='pde', r=1.5, tau=0.3 / FC - 1.0)], timeout=900)[0]
    if 'error' in o:
        return {'error': o['error']}
    a, b = o['h=0.0001'], o['h=0.0004']
    if a['caller'][0] > 1e-2 and b['caller'][0] > 1e-2:
        return {'params': WITNESS, 'r': 1.5, 't': 0.3, 'normalised_mass_residual_in_caller_time': a['caller'][0], 'in_lazarus_time': a['lazarus'][0],
                'note': 'derivatives by central differences, steps 1e-4 and 4e-4'}
    return None


def replay_c02():
    """speed of the converging shock from where the solver places it at t -+ dt, against the states it returns on the two sides"""
    o = H.run_real(SCRIPT, [dict(WITNESS, what='placement', t=0.3, dt=1e-3)], timeout=900)[0]
    if 'error' in o:
        return {'error': o['error']}
    if o['relative_defect'] > 1e-2:
        return dict(o, params=WITNESS)
    return None


if __name__ == '__main__':
    import random, json, sys
    rng = random.Random(int(sys.argv[1]) if len(sys.argv) > 1 else 0)
    print('pde', json.dumps(pde_oracle(rng, 'quick', None))[:600])
    print('jump', json.dumps(jump_oracle(rng, 'quick', None))[:600])
    print('eos', json.dumps(eos_oracle(rng, 'quick', None))[:600])
    print('replay c01', json.dumps(replay_c01())[:500])
    print('replay c02', json.dumps(replay_c02())[:900])
