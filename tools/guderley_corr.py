#!/usr/bin/env python3
"""correspondence of gen/Guderley.v with the real ramsey.state / guderley_1d: the ODE integrator is replaced by a probe that returns planted
similarity variables (first integration from x = -1) or its own initial condition (second integration, from the reflected shock), so that the
real code's algebra around the integration - start values, branch selection, jump at x = B, map back to physical fields, similarity
coordinate - is compared with the generated definitions on the same numbers."""
import json
import os
from fractions import Fraction
import harness as H
from harness import qlit
from py2coq import coq_num

REAL = r'''
import exactpack.solvers.guderley.ramsey as RM
class _S(object):
    pass
def main(payload):
    out = []
    real_state = RM.state
    for c in payload:
        calls = []
        def fake(fun, span, y0, rtol=None, atol=None, _c=c, _calls=calls):
            _calls.append([float(span[0]), float(span[1])] + [float(v) for v in y0])
            o = _S()
            yv = np.array(_c['y'], float) if len(_calls) == 1 else np.array(y0, float)
            o.y = yv.reshape(3, 1)
            return o
        try:
            RM.solve_ivp = fake
            f = real_state(c['r'], c['rho0'], c['n'], c['gamma'], c['lam'], c['B'], c['x'])
            rec = {'fields': [float(v) for v in f], 'calls': calls}
            # similarity coordinate handed to state() by guderley_1d
            seen = []
            RM.state = lambda rpos, rho0, ngeom, gamma, lam, B, tx, _s=seen: (_s.append([float(rpos), float(tx)]) or (0.0, 0.0, 0.0, 0.0, 0.0))
            RM.eexp = lambda n, g, _c=c: _c['lam']
            RM.get_shock_position = lambda n, g, l, _c=c: _c['B']
            RM.guderley_1d(c['t'], np.array([c['r']]), c['n'], c['gamma'], c['rho0'])
            rec['targetx'] = seen
            out.append(rec)
        except Exception as ex:
            out.append({'error': type(ex).__name__ + ': ' + str(ex)[:200]})
        finally:
            RM.state = real_state
    return out
'''

FIELDS = ('den', 'vel', 'pres', 'snd', 'sie')


def unit_corr(rng, tier, prop):
    js = json.load(open(os.path.join(H.COQ, 'gen', 'Guderley.json')))
    n = 8 if tier == 'quick' else 60
    r4 = lambda lo, hi: float('%.4g' % rng.uniform(lo, hi))
    cases = []
    for i in range(n):
        B = r4(0.4, 0.9)
        br = ['ahead', 'conv', 'pre', 'refl'][i % 4]
        x = {'ahead': -r4(1.05, 3.0), 'conv': -r4(0.05, 0.95), 'pre': r4(0.05, 0.95) * B, 'refl': B * r4(1.0, 4.0)}[br]
        y0 = -r4(0.1, 0.8)
        # planted values ahead of the reflected shock are supersonic relative to it (|C| < 1 + V), as on the real trajectory
        y1 = (float('%.4g' % ((1 + y0) * rng.uniform(0.2, 0.9))) if br == 'refl' else r4(0.2, 1.5)) * rng.choice([-1, 1])
        cases.append({'r': r4(0.2, 3.0), 'rho0': r4(0.3, 3.0), 'n': rng.choice([2, 3]), 'gamma': r4(1.2, 3.0), 'lam': r4(1.05, 1.6), 'B': B, 'x': x,
                      'y': [y0, y1, r4(1.5, 8.0)], 't': r4(0.05, 2.0), 'branch': br})
    res = H.run_real(REAL, cases)
    goals, dis = [], []

    def goal(nm, env, v, rel=Fraction(1, 10 ** 9)):
        args = ' '.join('(%s)' % env[a] if not isinstance(env[a], (int, float)) else qlit(env[a]) for a in js[nm]['args'])
        tol = rel * (abs(Fraction(v)) + Fraction(1, 1000))
        goals.append('Goal Rabs (%s %s - %s) <= %s.\nProof. autounfold with epgen. corr_solve. Qed.' % (nm, args, qlit(v), coq_num(tol)))

    for c, o in zip(cases, res):
        if 'error' in o:
            dis.append({'case': c, 'real': o, 'why': 'real implementation raised'})
            continue
        br = c['branch']
        ncall = {'ahead': 0, 'conv': 1, 'pre': 1, 'refl': 2}[br]
        spans = {'ahead': [], 'conv': [[-1.0, c['x']]], 'pre': [[-1.0, c['x']]], 'refl': [[-1.0, c['B']], [c['B'], c['x']]]}[br]
        if len(o['calls']) != ncall or [k[:2] for k in o['calls']] != spans:
            dis.append({'case': c, 'real': o, 'why': 'integration calls differ from the model branch %s' % br})
            continue
        env = {'r': c['r'], 'rho0': c['rho0'], 'gamma': c['gamma'], 'lambda_': c['lam'], 'B': c['B'], 'targetx': c['x'], 't': c['t'],
               'y0': c['y'][0], 'y1': c['y'][1], 'y2': c['y'][2]}
        if ncall:
            for k, vn in enumerate('VCR'):
                goal('gud_start_' + vn, env, o['calls'][0][2 + k])
        if br == 'refl':
            for k, vn in enumerate('VCR'):
                goal('gud_jump_' + vn, env, o['calls'][1][2 + k])
            # physical fields from the values the real code handed to the second integration (the probe returns them unchanged)
            env = dict(env, y0=o['calls'][1][2], y1=o['calls'][1][3], y2=o['calls'][1][4])
        for f, v in zip(FIELDS, o['fields']):
            goal('gud_%s_%s' % (br, f), env, v, rel=Fraction(1, 10 ** 8))
        if len(o['targetx']) != 1 or o['targetx'][0][0] != c['r']:
            dis.append({'case': c, 'real': o, 'why': 'guderley_1d did not call state() once per point'})
            continue
        goal('gud_targetx', env, o['targetx'][0][1])
    files = H.write_case_files('%s_guderley' % prop, 'gen.Guderley', goals, per_file=30)
    return files, len(goals), dis, (cases[0] if cases else None)


if __name__ == '__main__':
    import random
    print(unit_corr(random.Random(0), 'quick', 'CXX')[1:3])
