#!/usr/bin/env python3
"""writes tools/gen_index.json: which translation group produces which coq/gen/<Name>.v (used by flow to add the groups a unit's theorem files need)"""
import json, os, sys
sys.path.insert(0, os.path.dirname(os.path.abspath(__file__)))
import translate
idx = {}
for g, f in translate.GROUPS.items():
    try:
        for fn in f():
            idx[fn] = g
    except Exception as ex:
        print('group %s: %s' % (g, ex))
json.dump(idx, open(os.path.join(os.path.dirname(os.path.abspath(__file__)), 'gen_index.json'), 'w'), indent=1, sort_keys=True)
print(len(idx), 'generated files from', len(translate.GROUPS), 'groups')
