#!/usr/bin/env python3
"""C14 oracle: evaluates the heat-conduction solvers of the REAL implementation and checks, by finite differences,
the diffusion equation in the interior, the declared boundary conditions, the t -> 0+ limit and the t -> infinity
limit.  Every failure is tagged (solver, check) so that defects recorded in KNOWN_FINDINGS.json can be told apart from
new ones."""
import harness as H

SCRIPT = r'''
import warnings
from exactpack.solvers.heat import (Rod1D, PlanarSandwich, PlanarSandwichHot, PlanarSandwichHalf, Rectangle,
                                    Hutchens1, Hutchens2, CylindricalSandwich)
CLS = dict(Rod1D=Rod1D, PlanarSandwich=PlanarSandwich, PlanarSandwichHot=PlanarSandwichHot, PlanarSandwichHalf=PlanarSandwichHalf,
           Rectangle=Rectangle, Hutchens1=Hutchens1, Hutchens2=Hutchens2, CylindricalSandwich=CylindricalSandwich)
def d1(f, x, h): return (-f(x + 2*h) + 8*f(x + h) - 8*f(x - h) + f(x - 2*h)) / (12*h)
def d2(f, x, h): return (-f(x + 2*h) + 16*f(x + h) - 30*f(x) + 16*f(x - h) - f(x - 2*h)) / (12*h*h)
def fwd1(f, x, h): return (-25*f(x) + 48*f(x+h) - 36*f(x+2*h) + 16*f(x+3*h) - 3*f(x+4*h)) / (12*h)
def bwd1(f, x, h): return (25*f(x) - 48*f(x-h) + 36*f(x-2*h) - 16*f(x-3*h) + 3*f(x-4*h)) / (12*h)

def rod(s, c):
    L, kap = float(s.L), float(s.kappa)
    tau = L * L / kap
    T = lambda x, t: np.asarray(s(np.atleast_1d(np.asarray(x, float)), t)['temperature'], dtype=float)
    xs = np.array(c['fracs']) * L
    Tsc = abs(s.TL) + abs(s.TR) + abs(s.gamma1) + abs(s.gamma2) + 1e-9
    out = {}
    worst = 0.0
    for t in (c['t1'] * tau, c['t2'] * tau):
        Tt = d1(lambda tt: T(xs, tt), t, 1e-4 * tau)
        Txx = d2(lambda xx: T(xx, t), xs, 1e-3 * L)
        worst = max(worst, float(np.max(np.abs(Tt - kap * Txx)) / (np.max(np.abs(Tt)) + 1e-3 * Tsc / tau)))
    out['pde'] = worst
    t = c['t2'] * tau
    h = 1e-3 * L
    f = lambda xx: T([xx], t)[0]
    out['bc0'] = float(abs(s.alpha1 * f(0.0) + s.beta1 * fwd1(f, 0.0, h) - s.gamma1) / (abs(s.alpha1) * Tsc + abs(s.beta1) * Tsc / L))
    out['bcL'] = float(abs(s.alpha2 * f(L) + s.beta2 * bwd1(f, L, h) - s.gamma2) / (abs(s.alpha2) * Tsc + abs(s.beta2) * Tsc / L))
    ic = s.TL + (s.TR - s.TL) * xs / L
    out['ic'] = float(np.max(np.abs(T(xs, 1e-4 * tau) - ic)) / Tsc)
    # t -> infinity: time derivative vanishes, profile is linear, boundary conditions still hold
    tl = 60 * tau
    g = lambda xx: T([xx], tl)[0]
    lin = float(np.max(np.abs(d2(lambda xx: T(xx, tl), xs, 1e-2 * L))) * L * L / Tsc)
    drift = float(np.max(np.abs(T(xs, tl) - T(xs, 2 * tl))) / Tsc)
    b0 = float(abs(s.alpha1 * g(0.0) + s.beta1 * fwd1(g, 0.0, h) - s.gamma1) / (abs(s.alpha1) * Tsc + abs(s.beta1) * Tsc / L))
    bL = float(abs(s.alpha2 * g(L) + s.beta2 * bwd1(g, L, h) - s.gamma2) / (abs(s.alpha2) * Tsc + abs(s.beta2) * Tsc / L))
    out['steady'] = max(lin, drift, b0, bL)
    return out

def d2r(f, x, h):
    # Richardson-extrapolated 5-point second difference: truncation error O(h^6) instead of O(h^4).  The truncated Rectangle series carries modes up to
    # k = 100 pi / a; close to the top edge their second differences at the plain step were off by more than the threshold although the series
    # satisfies the heat equation exactly (theorem rectangle_heat_equation)
    return (16.0 * d2(f, x, h / 2.0) - d2(f, x, h)) / 15.0

def rectangle(s, c):
    a, b, kap = float(s.a), float(s.b), float(s.kappa)
    tau = a * a / kap
    T = lambda x, y, t: np.asarray(s(np.array([np.atleast_1d(np.asarray(x, float)), np.atleast_1d(np.asarray(y, float))]), t)['temperature'], dtype=float)
    xs = np.array(c['fracs']) * a; ys = np.array(c['fracs2']) * b
    Tsc = abs(s.Ttop) + 1e-9
    out = {}
    worst = 0.0
    for t in (c['t1'] * tau, c['t2'] * tau):
        Tt = d1(lambda tt: T(xs, ys, tt), t, 1e-4 * tau)
        lap = d2r(lambda xx: T(xx, ys, t), xs, 1e-3 * a) + d2r(lambda yy: T(xs, yy, t), ys, 1e-3 * b)
        worst = max(worst, float(np.max(np.abs(Tt - kap * lap)) / (np.max(np.abs(Tt)) + 1e-3 * Tsc / tau)))
    out['pde'] = worst
    t = c['t2'] * tau
    out['bottom'] = float(np.max(np.abs(T(xs, 0 * ys, t))) / Tsc)
    top = T(xs, 0 * ys + b * (1 - 1e-9), t)
    out['top_trunc'] = float(np.max(np.abs(top - s.Ttop)) / Tsc) if np.all(np.isfinite(top)) else float('inf')
    fl0 = np.array([fwd1(lambda xx: T([xx], [y], t)[0], 0.0, 1e-3 * a) for y in ys])
    fla = np.array([bwd1(lambda xx: T([xx], [y], t)[0], a, 1e-3 * a) for y in ys])
    out['sides_flux'] = float(max(np.max(np.abs(fl0)), np.max(np.abs(fla))) * a / Tsc)
    out['ic_trunc'] = float(np.max(np.abs(T(xs, ys, 1e-5 * tau))) / Tsc)
    st = T(xs, ys, 60 * tau)
    lap = d2r(lambda xx: T(xx, ys, 60 * tau), xs, 2e-3 * a) + d2r(lambda yy: T(xs, yy, 60 * tau), ys, 2e-3 * b)
    out['steady_fd'] = float(max(np.max(np.abs(st - T(xs, ys, 120 * tau))) / Tsc, np.max(np.abs(lap)) * a * a / Tsc))
    return out

def hutchens1(s, c):
    b = float(s.b); alpha = float(s.k) / (float(s.rho) * float(s.cp)); tau = b * b / alpha
    T = lambda r, t: np.asarray(s(np.atleast_1d(np.asarray(r, float)), t)['temperature'], dtype=float)
    rs = np.array(c['fracs']) * b
    Tsc = abs(s.Tb - s.T0) + 1e-9
    out = {}
    worst = 0.0
    for t in (c['t1'] * tau, c['t2'] * tau):
        Tt = d1(lambda tt: T(rs, tt), t, 1e-4 * tau)
        lap = d2(lambda rr: T(rr, t), rs, 1e-3 * b) + 2 / rs * d1(lambda rr: T(rr, t), rs, 1e-3 * b)
        worst = max(worst, float(np.max(np.abs(Tt - alpha * lap)) / (np.max(np.abs(Tt)) + 1e-3 * Tsc / tau)))
    out['pde'] = worst
    t = c['t2'] * tau
    out['surface'] = float(abs(T([b], t)[0] - s.Tb) / Tsc)
    out['centre'] = float(abs(T([0.0], t)[0] - T([1e-6 * b], t)[0]) / Tsc)
    out['ic'] = float(np.max(np.abs(T(rs, 1e-5 * tau) - s.T0)) / Tsc)
    out['steady'] = float(np.max(np.abs(T(rs, 60 * tau) - s.Tb)) / Tsc)
    return out

def hutchens2(s, c):
    b, L = float(s.b), float(s.L)
    T = lambda r, z: np.asarray(s((np.atleast_1d(np.asarray(r, float)), np.atleast_1d(np.asarray(z, float))), 0.0)['temperature'], dtype=float)
    rs = np.array(c['fracs']) * b; zs = np.array(c['fracs2']) * L
    Tsc = abs(s.Tb) + abs(s.T0) + abs(s.TL) + abs(s.g0 / s.k) * L * L + 1e-9
    out = {}
    lap = d2(lambda rr: T(rr, zs), rs, 1e-3 * b) + d1(lambda rr: T(rr, zs), rs, 1e-3 * b) / rs + d2(lambda zz: T(rs, zz), zs, 1e-3 * L)
    out['pde'] = float(np.max(np.abs(lap + s.g0 / s.k)) * L * L / Tsc)
    out['z0'] = float(np.max(np.abs(T(rs, 0 * zs) - s.T0)) / Tsc)
    out['zL'] = float(np.max(np.abs(T(rs, 0 * zs + L) - s.TL)) / Tsc)
    out['wall'] = float(np.max(np.abs(T(0 * rs + b, zs) - s.Tb)) / Tsc)
    return out

def cylsandwich(s, c):
    a, b, kap = float(s.a), float(s.b), float(s.kappa)
    tau = (b - a) ** 2 / kap
    T = lambda r, th, t: np.asarray(s((np.atleast_1d(np.asarray(r, float)), np.atleast_1d(np.asarray(th, float))), t)['temperature'], dtype=float)
    rs = a + np.array(c['fracs']) * (b - a); th = np.array(c['fracs2']) * np.pi / 2
    Tsc = abs(s.T0) + abs(s.T1) + 1e-9
    out = {}
    worst = 0.0
    for t in (c['t1'] * tau, c['t2'] * tau):
        Tt = d1(lambda tt: T(rs, th, tt), t, 1e-4 * tau)
        lap = d2(lambda rr: T(rr, th, t), rs, 1e-3 * (b - a)) + d1(lambda rr: T(rr, th, t), rs, 1e-3 * (b - a)) / rs + d2(lambda q: T(rs, q, t), th, 1e-3) / rs ** 2
        worst = max(worst, float(np.max(np.abs(Tt - kap * lap)) / (np.max(np.abs(Tt)) + np.max(np.abs(kap * lap)) + 1e-3 * Tsc / tau)))
    out['pde'] = worst
    t = c['t2'] * tau
    out['theta0'] = float(np.max(np.abs(T(rs, 0 * th, t) - s.T0)) / Tsc)
    out['theta_pi2'] = float(np.max(np.abs(T(rs, 0 * th + np.pi / 2, t) - s.T1)) / Tsc)
    out['ic'] = float(np.max(np.abs(T(rs, th, 1e-6 * tau))) / Tsc)
    return out

KIND = dict(Rod1D=rod, PlanarSandwich=rod, PlanarSandwichHot=rod, PlanarSandwichHalf=rod, Rectangle=rectangle, Hutchens1=hutchens1,
            Hutchens2=hutchens2, CylindricalSandwich=cylsandwich)
def main(payload):
    out = []
    for c in payload:
        try:
            with warnings.catch_warnings():
                warnings.simplefilter('ignore')
                s = CLS[c['class']](**c['params'])
                out.append(KIND[c['class']](s, c))
        except Exception as ex:
            out.append({'error': type(ex).__name__ + ': ' + str(ex)[:200]})
    return out
'''

# thresholds on the scaled residuals (observed on the unchanged tree: pde <= 3e-9, boundary <= 1e-11, ic <= 1e-14);
# *_trunc: quantities that converge like 1/Nsum (Fourier series of a jump), checked up to series truncation as the property says
THRESH = {'pde': 1e-5, 'bc0': 1e-7, 'bcL': 1e-7, 'ic': 1e-5, 'steady': 1e-6, 'bottom': 1e-9, 'top_trunc': 0.05, 'ic_trunc': 0.05, 'steady_fd': 1e-4, 'sides_flux': 1e-6,
          'surface': 1e-9, 'centre': 1e-4, 'z0': 1e-9, 'zL': 1e-9, 'wall': 1e-6, 'theta0': 1e-9, 'theta_pi2': 1e-9}


def r4(rng, lo, hi):
    return float('%.4g' % rng.uniform(lo, hi))


def sample(rng, tier):
    n = 1 if tier == 'quick' else 6
    cases = []
    for _ in range(n):
        kap, L = r4(rng, 0.3, 3), r4(rng, 0.5, 3)
        TL, TR, g1, g2 = (r4(rng, -2, 5) for _ in range(4))
        a1, a2, b1, b2 = (r4(rng, 0.5, 2) for _ in range(4))
        base = dict(kappa=kap, L=L, TL=TL, TR=TR, Nsum=700)
        common = dict(fracs=sorted(r4(rng, 0.1, 0.9) for _ in range(4)), t1=r4(rng, 0.02, 0.05), t2=r4(rng, 0.1, 0.4))
        def add(tag, cls, **p):
            cases.append(dict(common, tag=tag, **{'class': cls, 'params': p}))
        add('rod-bc1', 'Rod1D', **dict(base, alpha1=a1, beta1=0, gamma1=g1, alpha2=a2, beta2=0, gamma2=g2))
        add('rod-bc2', 'Rod1D', **dict(base, alpha1=0, beta1=1.0, gamma1=g1, alpha2=0, beta2=1.0, gamma2=g1))
        add('rod-bc3', 'Rod1D', **dict(base, alpha1=a1, beta1=0, gamma1=g1, alpha2=0, beta2=b2, gamma2=g2))
        add('rod-bc4', 'Rod1D', **dict(base, alpha1=0, beta1=b1, gamma1=g1, alpha2=a2, beta2=0, gamma2=g2))
        add('rod-robin', 'Rod1D', **dict(base, Nsum=150, alpha1=a1, beta1=b1, gamma1=g1, alpha2=a2, beta2=-b2, gamma2=g2))
        add('rod-robin-hom', 'Rod1D', **dict(base, Nsum=150, alpha1=a1, beta1=b1, gamma1=0, alpha2=a2, beta2=-b2, gamma2=0))
        add('rod-flux-robin', 'Rod1D', **dict(base, Nsum=150, alpha1=0, beta1=b1, gamma1=0, alpha2=a2, beta2=b2, gamma2=0))
        add('planar-sandwich', 'PlanarSandwich', **dict(base, TB=g1, TT=g2))
        add('planar-sandwich-hot', 'PlanarSandwichHot', **dict(base, F=g1))
        add('planar-sandwich-half', 'PlanarSandwichHalf', **dict(base, TB=g1, FT=g2))
        aa, bb = r4(rng, 1, 2.5), r4(rng, 1, 2.5)
        cases.append(dict(common, tag='rectangle', fracs2=sorted(r4(rng, 0.1, 0.9) for _ in range(4)),
                          **{'class': 'Rectangle', 'params': dict(kappa=kap, a=aa, b=bb, Ttop=r4(rng, 0.5, 3), Nsum=int(min(100, 200 * aa / bb)))}))
        cases.append(dict(common, tag='hutchens1', **{'class': 'Hutchens1', 'params': dict(k=r4(rng, 0.5, 3), cp=r4(rng, 0.5, 3), rho=r4(rng, 0.5, 3),
                                                                                           b=r4(rng, 0.5, 2), Tb=r4(rng, 2, 6), T0=r4(rng, 0, 1.5), Nsum=400)}))
        cases.append(dict(common, tag='hutchens2', fracs2=sorted(r4(rng, 0.1, 0.9) for _ in range(4)),
                          **{'class': 'Hutchens2', 'params': dict(k=r4(rng, 0.5, 3), g0=r4(rng, 0.5, 3), b=r4(rng, 0.5, 2), L=r4(rng, 1, 3),
                                                                 Tb=r4(rng, 2, 6), T0=r4(rng, 0, 3), TL=r4(rng, 0, 3), Nsum=40)}))
    if tier != 'quick':
        cases.append(dict(tag='cylindrical-sandwich', fracs=[0.2, 0.5, 0.8], fracs2=[0.2, 0.5, 0.8], t1=0.03, t2=0.2,
                          **{'class': 'CylindricalSandwich', 'params': dict(Nsum=4, Msum=8, T0=r4(rng, 0.2, 1), T1=r4(rng, 0.5, 2))}))
    return cases


def run(rng, tier, cases=None):
    """returns list of failures: {'solver': tag, 'check': name, 'residual':, 'threshold':, 'input': case}"""
    cases = cases if cases is not None else sample(rng, tier)
    res = H.run_real(SCRIPT, cases, timeout=1800)
    fails = []
    for c, r in zip(cases, res):
        if 'error' in r:
            fails.append({'solver': c['tag'], 'check': 'runs', 'residual': None, 'input': c, 'observed': r['error']})
            continue
        for k, v in r.items():
            if not (v <= THRESH[k]):
                fails.append({'solver': c['tag'], 'check': k, 'residual': v, 'threshold': THRESH[k], 'input': c})
    return fails, list(zip(cases, res))


if __name__ == '__main__':
    import random, json, sys
    fails, allr = run(random.Random(int(sys.argv[1]) if len(sys.argv) > 1 else 0), sys.argv[2] if len(sys.argv) > 2 else 'quick')
    for c, r in allr:
        print('%-22s' % c['tag'], {k: ('%.1e' % v if isinstance(v, float) else v) for k, v in r.items()})
    print(len(fails), 'failures:', sorted(set((f['solver'], f['check']) for f in fails)))
