#!/usr/bin/env python3
"""C12: correspondence of the Interp / wrapper models with the real code, and flux-constancy oracle."""
import os
from fractions import Fraction
import harness as H
from harness import qlit
from py2coq import coq_num

REAL = r'''
from exactpack.solvers.radshocks import ED_Solver, nED_Solver
def flux(s, rad_T):
    a0 = s.Sound_Speed[0]
    out = {}
    m = s.Density * s.Speed / a0
    out['mass'] = float(np.max(np.abs(m - s.rho0 * s.M0)) / abs(s.rho0 * s.M0))
    mom = (s.Density * s.Speed**2 + s.Pressure) / a0**2 + s.rho0 * s.P0 * (rad_T / s.Tref)**4 / 3.
    out['momentum'] = float(np.max(np.abs(mom - mom[0])) / abs(mom[0]))
    en = (0.5 * s.Density * s.Speed**2 + s.Density * s.SIE + s.Pressure) / a0**2 * s.Speed / a0 + s.Fr / a0**2
    en = en[:-1]
    out['energy'] = float(np.max(np.abs(en - en[0])) / abs(en[0]))
    return out
def api_flux(s):
    # mass flux rho u and total momentum flux rho u^2 + p + E_r / 3 of the RETURNED fields (public call at t = 0) on 1500 points
    # across the whole profile; "_in" leaves out the two widest knot intervals (the far-field end intervals of the profile grid)
    xi = np.asarray(s.x, dtype=float); x = -xi[::-1]
    pts = np.linspace(x.min(), x.max(), 1501)[1:-1]
    sol = s(pts, 0.0)
    rho = np.asarray(sol['density']); u = np.asarray(sol['velocity']); p = np.asarray(sol['pressure']); er = np.asarray(sol['rade'])
    m = rho * u; mom = rho * u * u + p + er / 3.
    dx = np.diff(x); idx = np.argsort(dx)[-2:]
    mask = np.ones(len(pts), bool)
    for g in idx:
        mask &= ~((pts > x[g]) & (pts < x[g + 1]))
    f = lambda a, mk: float(np.ptp(a[mk]) / abs(a[0])) if mk.any() else 0.0
    full = np.ones(len(pts), bool)
    worst = int(np.argmax(np.abs(m - m[0])))
    return {'mass_all': f(m, full), 'mass_in': f(m, mask), 'momentum_all': f(mom, full), 'momentum_in': f(mom, mask),
            'end_intervals': [[float(x[g]), float(x[g + 1])] for g in idx], 'worst_point': float(pts[worst]),
            'mass_flux_there_over_upstream': float(m[worst] / m[-1])}
def main(payload):
    out = []
    for c in payload:
        try:
            cls = ED_Solver if c['kind'] == 'ED' else nED_Solver
            s = cls(**c['params'])
            r = {'sound': float(s.sound), 'M0': float(s.M0), 'P0': float(s.P0), 'C0': float(s.C0), 'rho0': float(s.rho0), 'gamma': float(s.gamma),
                 'down': {'rho': float(s.Density[-1] / s.rho0), 'T': float((s.Tm if c['kind'] == 'ED' else s.Tr)[-1] / s.Tref), 'Tm': float(s.Tm[-1] / s.Tref)}}
            x = np.array(c['xs'], dtype=float)
            shift = s.M0 * s.sound * c['t']
            a = s(x + shift, c['t']); b = s(x, 0.0)
            names = a.dtype.names[1:]
            r['wave_defect'] = float(max(np.max(np.abs(np.asarray(a[n]) - np.asarray(b[n])) / (np.abs(np.asarray(b[n])) + 1e-300)) for n in names))
            # the same instance called again (other time, then the first time once more) must reproduce a fresh instance
            t2 = 2.5 * c['t']
            s(x, t2); again = s(x + shift, c['t'])
            fresh = cls(**c['params'])(x + shift, c['t'])
            # (a second construction in the same process may differ at the 1e-9 level: tolerances of the ODE / root solves seeded by
            #  earlier solves - that is property C06's subject; here the reference is the first call of the same instance, and the fresh
            #  instance is compared at 1e-6)
            d_same = float(max(np.max(np.abs(np.asarray(again[n]) - np.asarray(a[n])) / (np.abs(np.asarray(a[n])) + 1e-300)) for n in names))
            d_fresh = float(max(np.max(np.abs(np.asarray(again[n]) - np.asarray(fresh[n])) / (np.abs(np.asarray(fresh[n])) + 1e-300)) for n in names))
            r['history_defect'] = max(d_same, d_fresh * 1e-3)
            r['flux'] = flux(s, s.Tm if c['kind'] == 'ED' else s.Tr)
            r['upstream'] = {'T': float(s.Tm[0]), 'rho': float(s.Density[0])}
            r['api_flux'] = api_flux(s)
            out.append(r)
        except Exception as ex:
            out.append({'error': type(ex).__name__ + ': ' + str(ex)[:200]})
    # numpy.interp against the Interp model on small random knot lists
    out.append({'interp': [[float(np.interp(x, k, v)) for x in xs] for (k, v, xs) in payload[0]['interp_cases']]})
    return out
'''

HEADER = """From Coq Require Import Reals Lra List.
From Interval Require Import Tactic.
From EP Require Import lib.Base lib.Corr model.Interp gen.RadShock.
Import ListNotations.
Open Scope R_scope.
"""


def cases(rng, tier):
    out = []
    n_ed, n_ned = (2, 3) if tier == 'quick' else (8, 12)
    for i in range(n_ed + n_ned):
        kind = 'ED' if i < n_ed else 'nED'
        p = {'M0': round(rng.uniform(1.1, 3.0), 3), 'gamma': round(rng.uniform(1.3, 1.9), 4), 'Tref': round(rng.uniform(50, 400), 2),
             'Cv': round(1.4472799784454e12 * rng.uniform(0.5, 2.0), 1), 'rho0': round(rng.uniform(0.5, 2.0), 3)}
        if i == 0:
            p = {'M0': 1.2, 'Tref': 400.0}          # the former defect: non-default Tref
        if kind == 'nED':
            # scattering opacity comparable to / larger than the absorption opacity (default sigA = 577.35, sigS = 0)
            p = {'M0': round(rng.uniform(1.2, 3.0), 3), 'sigS': round(577.35 * rng.choice([0.2, 1.0, 1.0, 3.0]), 2)}
        out.append({'kind': kind, 'params': p, 't': round(rng.uniform(1e-10, 1e-8), 12), 'xs': [round(rng.uniform(-0.01, 0.01), 6) for _ in range(5)]})
    ic = []
    for _ in range(6):
        m = rng.randrange(2, 6)
        ks = sorted(round(rng.uniform(-2, 2), 3) for _ in range(m))
        ks = [k + 0.01 * j for j, k in enumerate(ks)]
        vs = [round(rng.uniform(-3, 3), 3) for _ in range(m)]
        xs = [round(rng.uniform(-3, 3), 3) for _ in range(4)] + [ks[0], ks[-1]]
        ic.append((ks, vs, xs))
    out[0]['interp_cases'] = ic
    return out


def unit_corr(rng, tier, prop):
    cs = cases(rng, tier)
    res = H.run_real(REAL, cs, timeout=3000)
    goals, dis = [], []
    for c, r in zip(cs, res[:-1]):
        if 'error' in r:
            dis.append({'case': {k: c[k] for k in ('kind', 'params')}, 'real': r, 'why': 'real implementation raised'})
            continue
        P = c['params']
        gam, Cv, Tref = P.get('gamma', 5.0 / 3.0), P.get('Cv', 1.4472799784454e12), P.get('Tref', 100.0)
        goals.append('Goal Rabs (rs_sound %s %s %s - %s) <= %s.\nProof. unfold rs_sound. interval with (i_prec 90). Qed.' % (
            qlit(Cv), qlit(Tref), qlit(gam), qlit(r['sound']), coq_num(Fraction(1, 10 ** 10) * Fraction(r['sound']))))
        rho0 = P.get('rho0', 1.0)
        goals.append('Goal Rabs (rs_P0 %s %s %s %s - %s) <= %s.\nProof. unfold rs_P0. interval with (i_prec 90). Qed.' % (
            qlit(Cv), qlit(Tref), qlit(gam), qlit(rho0), qlit(r['P0']), coq_num(Fraction(1, 10 ** 9) * Fraction(r['P0']))))
        goals.append('Goal Rabs (rs_C0 %s %s %s - %s) <= %s.\nProof. unfold rs_C0. interval with (i_prec 90). Qed.' % (
            qlit(Cv), qlit(Tref), qlit(gam), qlit(r['C0']), coq_num(Fraction(1, 10 ** 9) * Fraction(r['C0']))))
        # the far-downstream end of the real profile (relaxed to equilibrium within eps_relaxation_equil = 1e-6) is a root of the regenerated residuals
        if abs(r['down']['T'] - r['down']['Tm']) < 1e-4:
            tolq = coq_num(Fraction(1, 10 ** 4) * (Fraction(r['M0']) ** 2 + 1))
            for nm in ('rs_down_momentum', 'rs_down_energy'):
                goals.append('Goal Rabs (%s %s %s %s %s %s) <= %s.\nProof. unfold %s. interval with (i_prec 90). Qed.' % (
                    nm, qlit(r['M0']), qlit(r['gamma']), qlit(r['P0']), qlit(r['down']['rho']), qlit(r['down']['T']), tolq, nm))
        if r.get('history_defect', 0) > 1e-9:
            dis.append({'solver': c['kind'] + '_Solver', 'params': P, 't': c['t'], 'history_defect': r['history_defect'],
                        'why': 'the same instance called at t, 2.5 t and t again does not reproduce a fresh instance at t'})
        if r['wave_defect'] > 1e-9:
            dis.append({'solver': c['kind'] + '_Solver', 'params': P, 't': c['t'], 'points': c['xs'],
                        'why': 'solution at time t is not the time-0 profile displaced by M0*sound(gamma,Cv,Tref)*t', 'max_relative_difference': r['wave_defect']})
    for (ks, vs, xs), vals in zip(cs[0]['interp_cases'], res[-1]['interp']):
        pts = '[' + '; '.join('(%s, %s)' % (qlit(k), qlit(v)) for k, v in zip(ks, vs)) + ']'
        for x, v in zip(xs, vals):
            goals.append('Goal Rabs (interp %s %s - %s) <= 1 / 1000000000.\nProof. unfold interp, interp_aux. corr_solve. Qed.' % (qlit(x), pts, qlit(v)))
    files = H.write_case_files('%s_radshock' % prop, 'model.Interp gen.RadShock', goals)
    # write_case_files uses the generic header; Interp needs List notations
    for f in files:
        p = os.path.join(H.COQ, f)
        t = open(p).read().replace('From Coq Require Import Reals Lra.', 'From Coq Require Import Reals Lra List.\nImport ListNotations.')
        open(p, 'w').write(t)
    _last['res'] = list(zip(cs, res[:-1]))
    return files, len(goals), dis, {'kind': cs[0]['kind'], 'params': cs[0]['params'], 'observed': res[0]}


_last = {}


def oracle(rng, tier, reasons):
    fails = []
    if not _last.get('res'):
        cs = cases(rng, tier)
        res = H.run_real(REAL, cs, timeout=1800)
        _last['res'] = list(zip(cs, res[:len(cs)]))
    for c, r in _last.get('res', []):
        if 'error' in r:
            continue
        for k, v in r['flux'].items():
            if v > 1e-8:
                fails.append({'solver': c['kind'] + '_Solver', 'params': c['params'], 'flux': k, 'max_relative_variation_along_profile': v})
        if r.get('history_defect', 0) > 1e-9:
            fails.append({'solver': c['kind'] + '_Solver', 'params': c['params'], 't': c['t'], 'history_defect': r['history_defect'],
                          'why': 'the same instance called at t, 2.5 t and t again does not reproduce a fresh instance at t'})
        if r['wave_defect'] > 1e-9:
            fails.append({'solver': c['kind'] + '_Solver', 'params': c['params'], 't': c['t'], 'wave_defect': r['wave_defect']})
        fails += api_flux_fails(c, r)
    return fails


API_TOL = 1e-5


def api_flux_fails(c, r):
    """fluxes of the RETURNED fields (public call), not of the internal knots. Known finding ed-embedded-shock-ramp: ED_Solver represents
    its embedded hydrodynamic shock by the last integrated knot and the far-downstream end knot, so the public call returns a linear
    ramp over the whole downstream end interval; a failure confined to the end intervals of an ED profile is that finding, anything
    else is reported."""
    a = r.get('api_flux')
    if not a:
        return []
    out = []
    for k in ('mass', 'momentum'):
        if a[k + '_in'] > API_TOL or (a[k + '_all'] > API_TOL and c['kind'] != 'ED'):
            out.append({'solver': c['kind'] + '_Solver', 'params': c['params'], 'flux': k + ' flux of the returned fields',
                        'relative_variation_inside': a[k + '_in'], 'relative_variation_whole_profile': a[k + '_all'], 'worst_point': a['worst_point']})
    return out


def replay_ed_ramp():
    """known finding ed-embedded-shock-ramp, replayed on the real code: ED_Solver(M0 = 1.5), public call at t = 0"""
    c = {'kind': 'ED', 'params': {'M0': 1.5}, 't': 1e-9, 'xs': [-0.01, 0.0, 0.01]}
    r = H.run_real(REAL, [dict(c, interp_cases=[])], timeout=900)[0]
    a = r.get('api_flux', {})
    if a.get('mass_all', 0) > API_TOL and a.get('mass_in', 1) <= API_TOL:
        return {'solver': 'ED_Solver', 'params': c['params'], 'mass_flux_relative_variation_of_returned_fields': a['mass_all'],
                'inside_the_integrated_part': a['mass_in'], 'worst_point': a['worst_point'], 'end_intervals': a['end_intervals']}
    return None
