#!/usr/bin/env python3
"""C11 oracle on the REAL Sedov solver: energy and mass integrals behind the shock, undisturbed state ahead of it."""
import math
import harness as H

SCRIPT = r'''
import warnings, math
from exactpack.solvers.sedov import Sedov
def integrate(f, x):
    return float(np.trapezoid(f, x)) if hasattr(np, 'trapezoid') else float(np.trapz(f, x))
def one(c):
    r = one_(c, c.get('t_before'))
    if c.get('t_before'):
        # "at every time": an object that was evaluated at another time before must carry the same energy and mass as a fresh one
        f = one_(c, None)
        r['reused_vs_fresh'] = max(abs(r['E_over_eblast_minus_1'] - f['E_over_eblast_minus_1']), abs(r['M_over_M0_minus_1'] - f['M_over_M0_minus_1']),
                                   abs(r['lo'] - f['lo']) / (abs(f['r2']) + 1e-300))
    return r
def one_(c, t_before):
    P = c['params']; t = c['t']
    s = Sedov(**P)
    j = P['geometry']; om = P.get('omega', 0.0); g = P['gamma']
    if t_before:
        s(np.array([0.3, 0.9]), t_before)
    probe = s(np.array([1.0]), t)
    r2 = float(s.r2)
    S = 1.0 if j == 1 else (2 * math.pi if j == 2 else 4 * math.pi)
    # graded grid: fine near the shock and near the origin / vacuum boundary
    n = c.get('n', 4001)
    lo = float(getattr(s, 'rvv', 0.0) or 0.0)
    u = np.linspace(0.0, 1.0, n)
    r = lo + (r2 - lo) * (1 - (1 - u) ** 2)          # clustered towards the shock
    r = np.unique(np.concatenate([r, np.linspace(lo, r2, n)]))
    r = r[(r > 0) & (r < r2)]
    sol = s(np.concatenate([r, [r2 * (1 - 1e-12)]]), t)
    rho = np.asarray(sol['density'], float); uu = np.asarray(sol['velocity'], float); p = np.asarray(sol['pressure'], float)
    rr = np.concatenate([r, [r2 * (1 - 1e-12)]])
    m = np.isfinite(rho) & np.isfinite(uu) & np.isfinite(p)
    e_dens = (0.5 * rho * uu ** 2 + p / (g - 1)) * S * rr ** (j - 1)
    m_dens = rho * S * rr ** (j - 1)
    E = integrate(e_dens[m], rr[m]); M = integrate(m_dens[m], rr[m])
    M0 = P.get('rho0', 1.0) * S * r2 ** (j - om) / (j - om)
    # ahead of the shock
    xa = r2 * np.array([1.01, 1.3, 2.0, 5.0])     # more than one cell of the internal 3001-point grid away from the shock
    sa = s(xa, t)
    amb = P.get('rho0', 1.0) * xa ** (-om)
    ahead = float(np.max(np.abs(np.asarray(sa['density'], float) - amb) / amb))
    ahead = max(ahead, float(np.max(np.abs(np.asarray(sa['velocity'], float)))), float(np.max(np.abs(np.asarray(sa['pressure'], float)))))
    a5 = float(s.a5)
    return {'origin_singular': bool(s.solution_type == 'standard' and j < g * om * 1.05), 'a5': a5, 'type': s.solution_type, 'special': s.special_singularity, 'r2': r2, 'E_over_eblast_minus_1': E / P.get('eblast', 1.0) - 1.0,
            'M_over_M0_minus_1': M / M0 - 1.0, 'ahead': ahead, 'alpha': float(s.alpha), 'lo': lo}
def main(payload):
    out = []
    for c in payload:
        try:
            with warnings.catch_warnings():
                warnings.simplefilter('ignore')
                out.append(one(c))
        except Exception as ex:
            out.append({'error': type(ex).__name__ + ': ' + str(ex)[:300]})
    return out
'''


def r4(rng, lo, hi):
    return float('%.5g' % rng.uniform(lo, hi))


def cases(rng, n):
    out = []
    for _ in range(n):
        for kind in ('standard', 'standard0', 'vacuum', 'singular', 'omega2', 'omega3', 'near_singular', 'near_singular'):
            j = rng.choice([1, 2, 3]) if kind != 'near_singular' else rng.choice([2, 3])
            g = r4(rng, 1.2, 2.4)
            if kind == 'standard0':
                om = 0.0
            elif kind == 'standard':
                # v2 < vstar  <=>  omega < (3j - 2 + gamma (2 - j)) / (gamma + 1)
                oms = (3 * j - 2 + g * (2 - j)) / (g + 1)
                om = r4(rng, 0.0, max(0.0, min(oms, j) * 0.9))
            elif kind == 'vacuum':
                oms = (3 * j - 2 + g * (2 - j)) / (g + 1)
                if oms >= j:
                    continue
                om = r4(rng, oms + 0.05 * (j - oms), oms + 0.6 * (j - oms))
            elif kind == 'singular':
                om = float('%.5f' % ((3 * j - 2 + g * (2 - j)) / (g + 1)))
            elif kind == 'near_singular':
                # close to the singular exponent but not on it: the closed-form singular solution does not apply (its window is |v2 - v*| < 1e-4);
                # on the unchanged tree these profiles are accurate to 1e-6 in energy on either side
                om = float('%.5f' % ((3 * j - 2 + g * (2 - j)) / (g + 1) + rng.choice([-1, 1]) * rng.uniform(0.004, 0.016)))
            elif kind == 'omega2':
                om = float('%.5f' % ((2 * (g - 1) + j) / g))
            else:
                om = float('%.5f' % (j * (2 - g)))
            if not (0 <= om < j):
                continue
            case = {'kind': kind, 'params': {'geometry': j, 'gamma': g, 'omega': om, 'rho0': r4(rng, 0.3, 3), 'eblast': r4(rng, 0.3, 3)}, 't': r4(rng, 0.2, 3)}
            if kind == 'vacuum' or rng.random() < 0.4:
                case['t_before'] = r4(rng, 0.2, 3)
            out.append(case)
    return out


THRESH = {'E_over_eblast_minus_1': 2e-3, 'M_over_M0_minus_1': 2e-3, 'ahead': 1e-4, 'reused_vs_fresh': 1e-9}
# solutions with an integrable singularity of the density (vacuum boundary with a5 < 0; origin when geometry < gamma*omega): the solver's
# 3001-point linear interpolation cannot carry the integral; measured deficit on the unchanged tree up to 3.4e-2 (known finding
# sedov-singular-profiles-underresolved)
LOOSE = 6e-2


def classify(c, r):
    """returns (violations, attributable_to_known_finding)"""
    singular_profile = r.get('type') == 'vacuum' or r.get('origin_singular')
    bad, known = {}, {}
    for k in THRESH:
        if k not in r:
            continue
        v = r[k]
        if abs(v) <= THRESH[k]:
            continue
        if k == 'reused_vs_fresh':
            bad[k] = v
            continue
        if c.get('kind') == 'near_singular' and k == 'E_over_eblast_minus_1':
            bad[k] = v              # measured 1e-6 on the unchanged tree on both sides of the singular exponent: the loose tolerance does not apply
        elif singular_profile and k != 'ahead' and abs(v) <= LOOSE:
            known[k] = v            # either sign: a trapezoid over an integrable singularity sampled on the solver's fixed table over- or undershoots
        elif r.get('origin_singular') and k == 'M_over_M0_minus_1':
            known[k] = v            # density ~ r^-beta at the origin with beta close to 1: the mass integral is not resolvable on the fixed table (seen: +28 %)
        else:
            bad[k] = v
    return bad, known


def oracle(rng, tier, reasons, with_known=False):
    cs = cases(rng, (2 if tier == 'quick' else 12) * (3 if reasons else 1))
    res = H.run_real(SCRIPT, cs, timeout=3000)
    fails, knowns = [], []
    for c, r in zip(cs, res):
        if 'error' in r:
            continue
        bad, known = classify(c, r)
        if bad:
            fails.append({'solver': 'Sedov', 'input': c, 'observed': r, 'exceeds': bad,
                          'why': 'energy behind the shock != eblast, or mass behind the shock != initial mass inside the shock radius, or disturbed state ahead'})
        if known:
            knowns.append({'input': c, 'deficit': known})
    return (fails, knowns) if with_known else fails


WITNESS = {'kind': 'vacuum', 'params': {'geometry': 2, 'gamma': 2.1776, 'omega': 1.6363, 'rho0': 1.0, 'eblast': 1.0}, 't': 2.3644}


def replay_witness():
    r = H.run_real(SCRIPT, [WITNESS], timeout=600)[0]
    if 'error' in r:
        return None
    if r['E_over_eblast_minus_1'] < -THRESH['E_over_eblast_minus_1']:
        return {'input': WITNESS, 'E_over_eblast_minus_1': r['E_over_eblast_minus_1'], 'M_over_M0_minus_1': r['M_over_M0_minus_1'], 'a5': r['a5']}
    return None


if __name__ == '__main__':
    import random, sys, json
    seed = int(sys.argv[1]) if len(sys.argv) > 1 else 0
    cs = cases(random.Random(seed), 3)
    for c, r in zip(cs, H.run_real(SCRIPT, cs, timeout=3000)):
        print(c['kind'], c['params']['geometry'], c['params']['gamma'], c['params']['omega'], c['t'],
              {k: ('%.2e' % v if isinstance(v, float) else v) for k, v in r.items()})
