#!/usr/bin/env python3
"""C07 oracle: run pairs of independent routes on the REAL implementation and compare the fields."""
import harness as H

SCRIPT = r'''
import importlib
def get(modname, clsname, params, pts, t, pos=()):
    cls = getattr(importlib.import_module(modname), clsname)
    s = cls(*pos, **params)
    sol = s(np.array(pts, dtype=float), t)
    return {n: np.asarray(sol[n], dtype=float) for n in sol.dtype.names}

def cmp(a, b, names, tol, mask_jumps=False, wave_x=None, xs=None):
    worst = {}
    keep = None
    if mask_jumps:
        # the general-EOS driver interpolates its own grid: skip the cells around a discontinuity of either route
        keep = np.ones(len(a[names[0]]), bool)
        def jumps(f):
            d = np.abs(np.diff(f)) / (np.maximum(np.abs(f[1:]), np.abs(f[:-1])) + 1e-12)
            m = np.zeros(len(f), bool)
            for i in np.nonzero(d > 0.02)[0]:
                m[max(0, i - 3):i + 5] = True
            return m
        for n in names:
            keep &= ~(jumps(a[n]) & jumps(b[n]))       # only where BOTH routes have a discontinuity at the same place
        if wave_x is not None:
            # weak discontinuities (< 2 % per cell) are not seen by the jump detector, but the general-EOS driver still smears them over the cells of
            # its own grid: skip 5 cells on either side of every wave position reported by the ideal-gas driver
            xs = np.asarray(xs, float); dx = float(xs[1] - xs[0])
            for xw in wave_x:
                keep &= np.abs(xs - xw) > 5 * dx
    for n in names:
        x, y = a[n], b[n]
        if keep is not None:
            x, y = x[keep], y[keep]
        sc = np.maximum(np.abs(x), np.abs(y)) + 1e-12
        d = float(np.nanmax(np.abs(x - y) / sc))
        if d > tol or np.any(np.isnan(x) != np.isnan(y)):
            worst[n] = {'max_rel_diff': d, 'a': [float(v) for v in x[:4]], 'b': [float(v) for v in y[:4]]}
    return worst

def main(payload):
    out = []
    for c in payload:
        try:
            a = get(*c['a']); b = get(*c['b'])
            if c.get('negate_b'):
                for n in c['negate_b']:
                    b[n] = -b[n]
            wave_x = None
            if c.get('mask_jumps') and 'riemann' in c['a'][0]:
                from exactpack.solvers.riemann import riemann as _R
                P = c['a'][2]
                prob = _R.RiemannIGEOS(t=c['a'][4], **{k: P[k] for k in ('xmin', 'xd0', 'xmax', 'rl', 'ul', 'pl', 'gl', 'rr', 'ur', 'pr', 'gr')})
                prob.driver(np.array([P['xd0']]))
                wave_x = [float(v) for v in prob.Xregs]
            out.append(cmp(a, b, c['names'], c['tol'], c.get('mask_jumps', False), wave_x, c['a'][3]))
        except Exception as ex:
            out.append({'error': type(ex).__name__ + ': ' + str(ex)[:200]})
    return out
'''

HYD = ['density', 'velocity', 'pressure', 'specific_internal_energy']


def pairs(rng, n):
    out = []
    for _ in range(n):
        g = rng.choice([1, 2, 3]); gam = round(rng.uniform(1.1, 2.5), 4); u0 = -round(rng.uniform(0.2, 3), 4); rho0 = round(rng.uniform(0.3, 3), 4)
        Gam = round(rng.uniform(1, 60), 3)
        pts = sorted(round(rng.uniform(0.01, 2.0), 5) for _ in range(8)); t = round(rng.uniform(0.1, 2.0), 4)
        out.append({'what': 'Noh vs Cog19', 'a': ['exactpack.solvers.noh.noh1', 'Noh', {'geometry': g, 'gamma': gam, 'u0': u0, 'rho0': rho0}, pts, t],
                    'b': ['exactpack.solvers.cog.cog19', 'Cog19', {'geometry': g, 'gamma': gam, 'u0': u0, 'rho0': rho0, 'Gamma': Gam}, pts, t],
                    'names': HYD, 'tol': 1e-10})
        e0 = round(rng.uniform(0.3, 3), 4); t2 = round(rng.uniform(0.05, 0.9), 4)
        out.append({'what': 'Noh2 vs Noh2Cog', 'a': ['exactpack.solvers.noh2.noh2', 'Noh2', {'geometry': g, 'gamma': gam, 'rho0': rho0, 'e0': e0}, pts, t2],
                    'b': ['exactpack.solvers.noh2.noh2_cog', 'Noh2Cog', {'geometry': g, 'gamma': gam, 'rho0': rho0, 'e0': e0}, pts, t2],
                    'names': HYD, 'tol': 1e-10})
        # wrapper vs general class
        wname = {1: 'Planar', 2: 'Cylindrical', 3: 'Spherical'}[g]
        out.append({'what': '%sNoh vs Noh(geometry=%d)' % (wname, g), 'a': ['exactpack.solvers.noh.noh1', wname + 'Noh', {'gamma': gam}, pts, t],
                    'b': ['exactpack.solvers.noh.noh1', 'Noh', {'geometry': g, 'gamma': gam}, pts, t], 'names': HYD, 'tol': 0.0})
        out.append({'what': '%sCog8 vs Cog8(geometry=%d)' % (wname, g), 'a': ['exactpack.solvers.cog.cog8', wname + 'Cog8', {'gamma': gam}, pts, t],
                    'b': ['exactpack.solvers.cog.cog8', 'Cog8', {'geometry': g, 'gamma': gam}, pts, t], 'names': HYD + ['temperature'], 'tol': 0.0})
        out.append({'what': '%sSedov vs Sedov(geometry=%d)' % (wname, g), 'a': ['exactpack.solvers.sedov', wname + 'Sedov', {'gamma': gam}, pts, t],
                    'b': ['exactpack.solvers.sedov', 'Sedov', {'geometry': g, 'gamma': gam, 'eblast': {1: 0.0673185, 2: 0.311357, 3: 0.851072}[g]}, pts, t],
                    'names': HYD, 'tol': 1e-9})
        # ideal-gas vs general-EOS Riemann driver on ideal-gas data, each wave pattern, different gammas left and right
        r4 = lambda lo, hi: float('%.4g' % rng.uniform(lo, hi))
        P = {'pl': r4(0.3, 3), 'pr': r4(0.3, 3), 'rl': r4(0.3, 3), 'rr': r4(0.3, 3), 'ul': 0.0, 'ur': 0.0, 'gl': r4(1.2, 2.2), 'gr': r4(1.2, 2.2),
             'xmin': -3.0, 'xd0': 0.2, 'xmax': 3.0, 't': 0.25}
        pat = ['SCR', 'RCS', 'RCR', 'SCS', 'random'][len(out) % 5]
        if pat == 'SCR':
            P.update(pl=r4(0.05, 0.2), pr=r4(0.8, 2))
        elif pat == 'RCS':
            P.update(pl=r4(0.8, 2), pr=r4(0.05, 0.2))
        elif pat == 'RCR':
            P.update(pl=P['pr'], ul=-r4(0.2, 0.5), ur=r4(0.2, 0.5))
        elif pat == 'SCS':
            P.update(pl=P['pr'], ul=r4(0.3, 1.0), ur=-r4(0.3, 1.0))
        else:
            P.update(ul=r4(-1, 1), ur=r4(-1, 1))
        xs = [-1.3 + 3.0 * k / 1500 for k in range(1501)]      # fine enough that a fan changes by well under 2 % per cell
        for pp, tag in ((P, pat), (dict(P, pl=P['pr'], ul=-r4(0.2, 0.5), ur=r4(0.2, 0.5)), 'RCR')):
            out.append({'what': 'IGEOS_Solver vs GenEOS_Solver (%s)' % tag, 'a': ['exactpack.solvers.riemann.ep_riemann', 'IGEOS_Solver', pp, xs, 0.25],
                        'b': ['exactpack.solvers.riemann.ep_riemann', 'GenEOS_Solver', pp, xs, 0.25], 'names': ['pressure', 'density', 'velocity', 'specific_internal_energy'],
                        'tol': 2e-4, 'mask_jumps': True})
        # heat: planar sandwiches vs the rod with the matching boundary condition; rod BC3 vs the mirror image of BC4
        kap, L = r4(0.3, 3), r4(0.5, 3)
        TL, TR, g1, g2, b1 = r4(-2, 5), r4(-2, 5), r4(-2, 2), r4(-2, 2), r4(0.5, 2)
        base = dict(kappa=kap, L=L, TL=TL, TR=TR, Nsum=80)
        hx = [L * k / 12 for k in range(13)]; ht = r4(0.01, 0.3) * L * L / kap
        HM = 'exactpack.solvers.heat'
        out.append({'what': 'PlanarSandwich vs Rod1D BC1', 'a': [HM, 'PlanarSandwich', dict(base, TB=g1, TT=g2), hx, ht],
                    'b': [HM, 'Rod1D', dict(base, alpha1=1, beta1=0, gamma1=g1, alpha2=1, beta2=0, gamma2=g2), hx, ht], 'names': ['temperature'], 'tol': 1e-12})
        out.append({'what': 'PlanarSandwichHot vs Rod1D BC2', 'a': [HM, 'PlanarSandwichHot', dict(base, F=g1), hx, ht],
                    'b': [HM, 'Rod1D', dict(base, alpha1=0, beta1=1, gamma1=g1, alpha2=0, beta2=1, gamma2=g1), hx, ht], 'names': ['temperature'], 'tol': 1e-12})
        out.append({'what': 'PlanarSandwichHalf vs Rod1D BC3', 'a': [HM, 'PlanarSandwichHalf', dict(base, TB=g1, FT=g2), hx, ht],
                    'b': [HM, 'Rod1D', dict(base, alpha1=1, beta1=0, gamma1=g1, alpha2=0, beta2=1, gamma2=g2), hx, ht], 'names': ['temperature'], 'tol': 1e-12})
        out.append({'what': 'Rod1D BC4 vs mirror image of BC3', 'a': [HM, 'Rod1D', dict(base, alpha1=0, beta1=b1, gamma1=g1, alpha2=1.0, beta2=0, gamma2=g2), hx, ht],
                    'b': [HM, 'Rod1D', dict(base, TL=TR, TR=TL, alpha1=1.0, beta1=0, gamma1=g2, alpha2=0, beta2=-b1, gamma2=g1), [L - x for x in hx], ht],
                    'names': ['temperature'], 'tol': 1e-9})
    return out


def oracle(rng, tier, reasons):
    ps = pairs(rng, 5 if tier == 'quick' else 30)
    res = H.run_real(SCRIPT, ps, timeout=1800)
    fails = []
    for p, r in zip(ps, res):
        if 'error' in r:
            continue
        if r:
            fails.append({'routes': p['what'], 'route_a': p['a'][:3], 'route_b': p['b'][:3], 'points': p['a'][3], 't': p['a'][4], 'fields_that_differ': r})
    return fails
