#!/usr/bin/env python3
"""C07 oracle: run pairs of independent routes on the REAL implementation and compare the fields."""
import harness as H

SCRIPT = r'''
import importlib
def get(modname, clsname, params, pts, t, pos=()):
    cls = getattr(importlib.import_module(modname), clsname)
    s = cls(*pos, **params)
    sol = s(np.array(pts, dtype=float), t)
    return {n: np.asarray(sol[n], dtype=float) for n in sol.dtype.names}

def cmp(a, b, names, tol):
    worst = {}
    for n in names:
        x, y = a[n], b[n]
        sc = np.maximum(np.abs(x), np.abs(y)) + 1e-12
        d = float(np.nanmax(np.abs(x - y) / sc))
        if d > tol or np.any(np.isnan(x) != np.isnan(y)):
            worst[n] = {'max_rel_diff': d, 'a': [float(v) for v in x[:4]], 'b': [float(v) for v in y[:4]]}
    return worst

def main(payload):
    out = []
    for c in payload:
        try:
            a = get(*c['a']); b = get(*c['b'])
            if c.get('negate_b'):
                for n in c['negate_b']:
                    b[n] = -b[n]
            out.append(cmp(a, b, c['names'], c['tol']))
        except Exception as ex:
            out.append({'error': type(ex).__name__ + ': ' + str(ex)[:200]})
    return out
'''

HYD = ['density', 'velocity', 'pressure', 'specific_internal_energy']


def pairs(rng, n):
    out = []
    for _ in range(n):
        g = rng.choice([1, 2, 3]); gam = round(rng.uniform(1.1, 2.5), 4); u0 = -round(rng.uniform(0.2, 3), 4); rho0 = round(rng.uniform(0.3, 3), 4)
        Gam = round(rng.uniform(1, 60), 3)
        pts = sorted(round(rng.uniform(0.01, 2.0), 5) for _ in range(8)); t = round(rng.uniform(0.1, 2.0), 4)
        out.append({'what': 'Noh vs Cog19', 'a': ['exactpack.solvers.noh.noh1', 'Noh', {'geometry': g, 'gamma': gam, 'u0': u0, 'rho0': rho0}, pts, t],
                    'b': ['exactpack.solvers.cog.cog19', 'Cog19', {'geometry': g, 'gamma': gam, 'u0': u0, 'rho0': rho0, 'Gamma': Gam}, pts, t],
                    'names': HYD, 'tol': 1e-10})
        e0 = round(rng.uniform(0.3, 3), 4); t2 = round(rng.uniform(0.05, 0.9), 4)
        out.append({'what': 'Noh2 vs Noh2Cog', 'a': ['exactpack.solvers.noh2.noh2', 'Noh2', {'geometry': g, 'gamma': gam, 'rho0': rho0, 'e0': e0}, pts, t2],
                    'b': ['exactpack.solvers.noh2.noh2_cog', 'Noh2Cog', {'geometry': g, 'gamma': gam, 'rho0': rho0, 'e0': e0}, pts, t2],
                    'names': HYD, 'tol': 1e-10})
        # wrapper vs general class
        wname = {1: 'Planar', 2: 'Cylindrical', 3: 'Spherical'}[g]
        out.append({'what': '%sNoh vs Noh(geometry=%d)' % (wname, g), 'a': ['exactpack.solvers.noh.noh1', wname + 'Noh', {'gamma': gam}, pts, t],
                    'b': ['exactpack.solvers.noh.noh1', 'Noh', {'geometry': g, 'gamma': gam}, pts, t], 'names': HYD, 'tol': 0.0})
        out.append({'what': '%sCog8 vs Cog8(geometry=%d)' % (wname, g), 'a': ['exactpack.solvers.cog.cog8', wname + 'Cog8', {'gamma': gam}, pts, t],
                    'b': ['exactpack.solvers.cog.cog8', 'Cog8', {'geometry': g, 'gamma': gam}, pts, t], 'names': HYD + ['temperature'], 'tol': 0.0})
        out.append({'what': '%sSedov vs Sedov(geometry=%d)' % (wname, g), 'a': ['exactpack.solvers.sedov', wname + 'Sedov', {'gamma': gam}, pts, t],
                    'b': ['exactpack.solvers.sedov', 'Sedov', {'geometry': g, 'gamma': gam, 'eblast': {1: 0.0673185, 2: 0.311357, 3: 0.851072}[g]}, pts, t],
                    'names': HYD, 'tol': 1e-9})
    return out


def oracle(rng, tier, reasons):
    ps = pairs(rng, 4 if tier == 'quick' else 30)
    res = H.run_real(SCRIPT, ps, timeout=1800)
    fails = []
    for p, r in zip(ps, res):
        if 'error' in r:
            continue
        if r:
            fails.append({'routes': p['what'], 'route_a': p['a'][:3], 'route_b': p['b'][:3], 'points': p['a'][3], 't': p['a'][4], 'fields_that_differ': r})
    return fails
