#!/usr/bin/env python3
"""Numeric oracles on the REAL 1-D Riemann solvers (failing-input search / thorough cross-check):
jump conditions at every wave, integral conservation, mirror and Galilean symmetry, self-similarity."""
import harness as H
import riemann_corr as RC

SCRIPT = r'''
from exactpack.solvers.riemann.ep_riemann import IGEOS_Solver, GenEOS_Solver
from exactpack.solvers.riemann import riemann
F = ('pressure', 'density', 'velocity', 'specific_internal_energy')

def solve(P, xs, t, kind='ig'):
    cls = IGEOS_Solver if kind == 'ig' else GenEOS_Solver
    s = cls(**P)
    sol = s(np.array(xs, dtype=float), t)
    return {n: np.asarray(sol[n], dtype=float) for n in F}, s

def waves(P, t, kind='ig'):
    cls = riemann.RiemannIGEOS if kind == 'ig' else riemann.RiemannGenEOS
    keys = ('xmin', 'xd0', 'xmax', 'rl', 'ul', 'pl', 'gl', 'rr', 'ur', 'pr', 'gr')
    prob = cls(t=t, **{k: P[k] for k in keys})
    prob.driver(np.array([P['xd0']]))
    return [float(v) for v in prob.Xregs], [float(v) for v in prob.Vregs], prob.soln_type, float(prob.px)

def cons(S, g):
    p, r, u, e = S['pressure'], S['density'], S['velocity'], S['specific_internal_energy']
    return np.array([r, r * u, r * (e + u * u / 2)])

def flux(p, r, u, e):
    return np.array([r * u, r * u * u + p, (r * (e + u * u / 2) + p) * u])

def check_rh(P, t):
    X, V, typ, px = waves(P, t)
    out = {'type': typ, 'px': px, 'Xregs': X, 'waves': []}
    worst = 0.0
    for xe, v in zip(X, V):
        d = 1e-6 * (1 + abs(xe))
        S, _ = solve(P, [xe - d, xe + d], t)
        L = [S[n][0] for n in F]; Rr = [S[n][1] for n in F]
        def fl(s_):
            p, r, u, e = s_
            m = r * (u - v)
            return np.array([m, m * u + p, m * (e + u * u / 2) + p * u]), np.array([abs(r * u) + abs(r * v), abs(m * u) + abs(p), abs(m) * (abs(e) + u * u / 2) + abs(p * u)])
        a, sa = fl(L); b, sb = fl(Rr)
        defect = np.abs(a - b) / (sa + sb + 1e-300)
        out['waves'].append({'x': xe, 'speed': v, 'left': L, 'right': Rr, 'defect': [float(z) for z in defect]})
        worst = max(worst, float(defect.max()))
    out['worst'] = worst
    return out

def simpson(y, h):
    return h / 3 * (y[0] + y[-1] + 4 * y[1:-1:2].sum(axis=0) + 2 * y[2:-1:2].sum(axis=0))

def check_conservation(P, t, kind='ig'):
    X, V, typ, px = waves(P, t, kind)
    a = min(X) - 0.3; b = max(X) + 0.3
    edges = [a] + sorted(X) + [b]
    total = np.zeros(3)
    for lo, hi in zip(edges[:-1], edges[1:]):
        if hi - lo < 1e-12:
            continue
        d = 1e-9 * (1 + abs(lo) + abs(hi))
        xs = np.linspace(lo + d, hi - d, 401)
        S, _ = solve(P, xs, t, kind)
        U = cons(S, None).T
        total += simpson(U, (xs[-1] - xs[0]) / 400) + U[0] * d + U[-1] * d
    gl, gr = P['gl'], P['gr']
    el = P['pl'] / (gl - 1) / P['rl']; er = P['pr'] / (gr - 1) / P['rr']
    UL = np.array([P['rl'], P['rl'] * P['ul'], P['rl'] * (el + P['ul'] ** 2 / 2)])
    UR = np.array([P['rr'], P['rr'] * P['ur'], P['rr'] * (er + P['ur'] ** 2 / 2)])
    init = UL * (P['xd0'] - a) + UR * (b - P['xd0'])
    expected = init + t * (flux(P['pl'], P['rl'], P['ul'], el) - flux(P['pr'], P['rr'], P['ur'], er))
    scale = np.abs(UL) * (P['xd0'] - a) + np.abs(UR) * (b - P['xd0']) + t * (np.abs(flux(P['pl'], P['rl'], P['ul'], el)) + np.abs(flux(P['pr'], P['rr'], P['ur'], er)))
    return {'type': typ, 'px': px, 'Xregs': X, 'window': [a, b], 'integral': [float(z) for z in total], 'expected': [float(z) for z in expected],
            'defect': [float(z) for z in (total - expected) / (scale + 1e-300)]}

def check_sym(P, t, xs, v):
    A, _ = solve(P, xs, t)
    # mirror about xd0: exchange states, negate velocities
    Pm = dict(P, pl=P['pr'], rl=P['rr'], ul=-P['ur'], gl=P['gr'], pr=P['pl'], rr=P['rl'], ur=-P['ul'], gr=P['gl'])
    xm = [2 * P['xd0'] - x for x in xs]
    Pm['xmin'], Pm['xmax'] = 2 * P['xd0'] - P['xmax'], 2 * P['xd0'] - P['xmin']
    M, _ = solve(Pm, xm, t)
    # boost by v: solution translated by v t, velocities shifted
    Pb = dict(P, ul=P['ul'] + v, ur=P['ur'] + v)
    Bs, _ = solve(Pb, [x + v * t for x in xs], t)
    # self-similarity: time 2t, positions stretched about xd0
    S2, _ = solve(P, [P['xd0'] + 2 * (x - P['xd0']) for x in xs], 2 * t)
    out = {}
    for n in F:
        sgn = -1.0 if n == 'velocity' else 1.0
        sc = np.abs(A[n]) + 1e-3 + (abs(v) if n == 'velocity' else 0)
        out['mirror_' + n] = float(np.max(np.abs(A[n] - sgn * M[n]) / sc))
        out['boost_' + n] = float(np.max(np.abs(A[n] + (v if n == 'velocity' else 0) - Bs[n]) / sc))
        out['selfsim_' + n] = float(np.max(np.abs(A[n] - S2[n]) / sc))
    return out

def check_sym_gen(P, t, xs, v):
    # general-EOS driver: it interpolates its own 10001-point grid, so every discontinuity is smeared over one grid cell;
    # points within BAND of a wave position of any of the three runs are left out
    band = 20 * (P['xmax'] - P['xmin']) / 10000.0
    xs = np.array(xs, dtype=float)
    A, sa = solve(P, xs, t, 'gen')
    Pm = dict(P, pl=P['pr'], rl=P['rr'], ul=-P['ur'], gl=P['gr'], pr=P['pl'], rr=P['rl'], ur=-P['ul'], gr=P['gl'])
    Pm['xd0'] = -P['xd0']; Pm['xmin'], Pm['xmax'] = -P['xmax'], -P['xmin']
    M, sm = solve(Pm, -xs, t, 'gen')
    Pb = dict(P, ul=P['ul'] + v, ur=P['ur'] + v)
    Bs, sb = solve(Pb, xs + v * t, t, 'gen')
    wa = P['xd0'] + t * np.asarray(sa.Vregs, dtype=float)
    wm = -(Pm['xd0'] + t * np.asarray(sm.Vregs, dtype=float))
    wb = P['xd0'] + t * np.asarray(sb.Vregs, dtype=float) - v * t
    keep = np.ones(len(xs), bool)
    for w in list(wa) + list(wm) + list(wb) + [P['xd0']]:
        keep &= np.abs(xs - w) > band
    out = {'pattern': sa.soln_type, 'points_kept': int(keep.sum())}
    for n in F:
        sgn = -1.0 if n == 'velocity' else 1.0
        sc = np.max(np.abs(A[n])) + 1e-3 + (abs(v) if n == 'velocity' else 0)
        out['mirror_' + n] = float(np.max(np.abs(A[n] - sgn * M[n])[keep]) / sc) if keep.any() else 0.0
        out['boost_' + n] = float(np.max(np.abs(A[n] + (v if n == 'velocity' else 0) - Bs[n])[keep]) / sc) if keep.any() else 0.0
    return out

def main(payload):
    res = []
    for c in payload:
        try:
            if c.get('before'):
                # another problem solved first in the same process (results discarded): the next result must not depend on it
                solve(c['before'], [c['before']['xd0'] + 0.1], c['t'], c.get('kind', 'ig'))
            if c['what'] == 'rh':
                res.append(check_rh(c['params'], c['t']))
            elif c['what'] == 'cons':
                res.append(check_conservation(c['params'], c['t'], c.get('kind', 'ig')))
            elif c['what'] == 'sym':
                res.append(check_sym(c['params'], c['t'], c['xs'], c['v']))
            elif c['what'] == 'symgen':
                res.append(check_sym_gen(c['params'], c['t'], c['xs'], c['v']))
        except Exception as ex:
            res.append({'error': type(ex).__name__ + ': ' + str(ex)[:300]})
    return res
'''


def _problems(rng, n):
    out = []
    for _ in range(n):
        P = RC.sample_problem(rng)
        t = round(rng.uniform(0.05, 0.3), 4)
        out.append((P, t))
    return out


def rh_oracle(rng, tier, reasons, thresh=1e-6):
    n = 12 if tier == 'quick' else 120
    cases = [{'what': 'rh', 'params': P, 't': t} for P, t in _problems(rng, n)]
    res = H.run_real(SCRIPT, cases)
    fails = []
    for c, o in zip(cases, res):
        if 'error' in o:
            continue
        if o['worst'] > thresh:
            w = max(o['waves'], key=lambda w_: max(w_['defect']))
            fails.append({'solver': 'IGEOS_Solver', 'params': c['params'], 't': c['t'], 'pattern': o['type'], 'px': o['px'],
                          'wave': w, 'normalised_jump_defects(mass,momentum,energy)': w['defect']})
    fails.sort(key=lambda f: -max(f['wave']['defect']))
    return fails


def cons_oracle(rng, tier, reasons, thresh=1e-6, kind='ig'):
    n = 10 if tier == 'quick' else 100
    cases = [{'what': 'cons', 'params': P, 't': t, 'kind': kind} for P, t in _problems(rng, n)]
    res = H.run_real(SCRIPT, cases, timeout=1800)
    fails = []
    for c, o in zip(cases, res):
        if 'error' in o:
            continue
        if max(abs(z) for z in o['defect']) > thresh:
            fails.append({'solver': 'IGEOS_Solver' if kind == 'ig' else 'GenEOS_Solver', 'params': c['params'], 't': c['t'],
                          'pattern': o['type'], 'window': o['window'],
                          'integral(mass,momentum,energy)': o['integral'], 'initial_plus_t_times_flux_difference': o['expected'],
                          'normalised_defect': o['defect']})
    fails.sort(key=lambda f: -max(abs(z) for z in f['normalised_defect']))
    return fails


def sym_oracle(which):
    def oracle(rng, tier, reasons, thresh=1e-6):
        n = 10 if tier == 'quick' else 80
        cases = []
        for P, t in _problems(rng, n):
            xs = sorted(round(P['xd0'] + rng.uniform(-0.6, 0.6), 5) for _ in range(7))
            cases.append({'what': 'sym', 'params': P, 't': t, 'xs': xs, 'v': round(rng.uniform(-1, 1), 3)})
        res = H.run_real(SCRIPT, cases, timeout=1800)
        fails = []
        for c, o in zip(cases, res):
            if 'error' in o:
                continue
            bad = {k: v for k, v in o.items() if k.split('_')[0] in which and v > thresh}
            if bad:
                fails.append({'solver': 'IGEOS_Solver', 'params': c['params'], 't': c['t'], 'points': c['xs'], 'boost': c['v'],
                              'max_relative_difference': bad})
        return fails
    return oracle


def gen_sym_oracle(rng, tier, reasons, thresh=1e-4):
    """mirror and Galilean symmetry of the general-EOS driver (GenEOS_Solver) on ideal-gas data, every wave pattern, moving contacts"""
    n = 6 if tier == 'quick' else 40
    cases = []
    # the driver interpolates linearly on its own grid (cell 4e-4): inside a narrow fan the interpolation error, which differs between a
    # problem and its boosted image, reaches ~1e-6 of the field size; thresh is well above that and far below a misplaced region
    kinds = ['expand', 'sod', 'expand', 'collide', 'any', 'expand']
    for i in range(n):
        P = RC.sample_problem(rng)
        k = kinds[i % 6]
        if k == 'expand':       # rarefaction-contact-rarefaction with a moving contact and unequal star densities
            P.update(pr=float('%.4g' % (P['pl'] * rng.uniform(0.6, 1.6))), ul=-round(rng.uniform(0.3, 0.9), 4), ur=round(rng.uniform(0.3, 0.9), 4))
        elif k == 'sod':
            P.update(pl=1.0, pr=0.1, ul=round(rng.uniform(-0.3, 0.3), 4), ur=round(rng.uniform(-0.3, 0.3), 4))
        elif k == 'collide':
            P.update(ul=round(rng.uniform(0.5, 1.5), 4), ur=-round(rng.uniform(0.5, 1.5), 4))
        t = round(rng.uniform(0.1, 0.3), 4)
        xs = [round(P['xd0'] - 0.9 + 1.8 * (j + rng.random()) / 90, 5) for j in range(90)]
        cases.append({'what': 'symgen', 'params': P, 't': t, 'xs': xs, 'v': round(rng.choice([-1, 1]) * rng.uniform(0.3, 1.2), 3)})
    res = H.run_real(SCRIPT, cases, timeout=3000)
    fails = []
    for c, o in zip(cases, res):
        if 'error' in o:
            continue
        bad = {k_: v_ for k_, v_ in o.items() if k_.split('_')[0] in ('mirror', 'boost') and v_ > thresh}
        if bad:
            fails.append({'solver': 'GenEOS_Solver', 'params': c['params'], 't': c['t'], 'points': c['xs'], 'boost': c['v'], 'pattern': o.get('pattern'),
                          'max_difference_relative_to_field_size': bad})
    return fails
