#!/usr/bin/env python3
"""Translation of the heat-conduction series solvers (exactpack/solvers/heat) into coq/gen/Heat.v.

The solvers build arrays of mode numbers / Fourier coefficients in loops (`for n in range(self.Nsum): self.kn[n] = ...`)
and sum a series in another loop.  The translator reads that loop skeleton structurally (fail-closed: every shape
it relies on is checked) and hands the loop BODIES to the ordinary symbolic interpreter with the loop index as a free
real variable, so that the emitted Coq text is  static(x) + sum_range (fun n => term(A n, B n, k n, x, t)) 0 Nsum
with A, B, k functions of the index."""
import ast
import copy
import os
import gen
from gen import REPO, HEADER, translate_method, emit_function, expr_to_json
from py2coq import (Module, Unsupported, Interp, Raised, free_vars, coq_prop, coq_expr, coq_name, cnot, cand, num, is_expr,
                    is_cond, Solution)

S = os.path.join(REPO, 'exactpack', 'solvers')


def is_self_attr(n, attr=None):
    return isinstance(n, ast.Attribute) and isinstance(n.value, ast.Name) and n.value.id == 'self' and (attr is None or n.attr == attr)


class ArrToLocal(ast.NodeTransformer):
    """self.<arr>[<idx>] -> local <arr>_<idx>   (only for the listed arrays and exactly the index variable)"""

    def __init__(self, arrays, idx):
        self.arrays, self.idx = arrays, idx

    def visit_Subscript(self, n):
        self.generic_visit(n)
        if is_self_attr(n.value) and n.value.attr in self.arrays:
            if not (isinstance(n.slice, ast.Name) and n.slice.id == self.idx):
                raise Unsupported('line %d: array %s indexed by something other than the loop variable' % (n.lineno, n.value.attr))
            return ast.copy_location(ast.Name(id='%s_%s' % (n.value.attr, self.idx), ctx=n.ctx), n)
        return n


def method(cnode, name):
    for st in cnode.body:
        if isinstance(st, ast.FunctionDef) and st.name == name:
            return st
    raise Unsupported('class %s has no method %s' % (cnode.name, name))


def range_of_self_attr(fornode, attr):
    it = fornode.iter
    return isinstance(it, ast.Call) and getattr(it.func, 'id', '') == 'range' and len(it.args) == 1 and is_self_attr(it.args[0], attr)


def synth(mod, cname, name, args, body):
    f = ast.FunctionDef(name=name, args=ast.arguments(posonlyargs=[], args=[ast.arg(arg=a) for a in ['self'] + args], kwonlyargs=[], kw_defaults=[], defaults=[]),
                        body=body, decorator_list=[])
    ast.fix_missing_locations(f)
    cn = mod.classes[cname]
    cn.body = [st for st in cn.body if not (isinstance(st, ast.FunctionDef) and st.name == name)] + [f]
    return f


def if_chain(node):
    """[(test, body)], else-body"""
    out = []
    while True:
        out.append((node.test, node.body))
        if len(node.orelse) == 1 and isinstance(node.orelse[0], ast.If):
            node = node.orelse[0]
        else:
            return out, node.orelse


def dom_of(interp, what):
    dom = ('true',)
    for (pth, exc, msg, ln) in interp.raises:
        if exc != 'ValueError':
            raise Unsupported('%s raises %s (line %d)' % (what, exc, ln))
        dom = cand(dom, cnot(pth))
    return dom


def rod1d():
    path = os.path.join(S, 'heat/rod1d.py')
    mod = Module(path)
    cn = mod.classes['Rod1D']
    init = method(cn, '__init__')
    run = method(cn, '_run')
    arrays = []
    chain_init = None
    for st in init.body:
        if isinstance(st, ast.Assign) and is_self_attr(st.targets[0]) and isinstance(st.value, ast.Call) and getattr(st.value.func, 'attr', '') == 'zeros':
            kw = {k.arg: k.value for k in st.value.keywords}
            if not ('shape' in kw and is_self_attr(kw['shape'], 'Nsum')):
                raise Unsupported('rod1d.__init__: array %s is not zeros(shape=self.Nsum)' % st.targets[0].attr)
            arrays.append(st.targets[0].attr)
        elif isinstance(st, ast.If):
            chain_init = st
    if sorted(arrays) != ['An', 'Bn', 'kn'] or chain_init is None:
        raise Unsupported('rod1d.__init__: expected arrays kn, An, Bn and a boundary-condition dispatch')
    br_init, else_init = if_chain(chain_init)
    chain_run = [st for st in run.body if isinstance(st, ast.If)]
    if len(chain_run) != 1:
        raise Unsupported('rod1d._run: expected one boundary-condition dispatch')
    br_run, else_run = if_chain(chain_run[0])
    if len(br_init) != 4 or len(br_run) != 4:
        raise Unsupported('rod1d: expected four special boundary-condition cases')
    # the series loop and what follows
    loops = [st for st in run.body if isinstance(st, ast.For)]
    if len(loops) != 1 or not range_of_self_attr(loops[0], 'Nsum') or len(loops[0].body) != 1:
        raise Unsupported('rod1d._run: series loop shape')
    idx = loops[0].target.id
    acc = loops[0].body[0]
    if not (isinstance(acc, ast.AugAssign) and isinstance(acc.op, ast.Add) and getattr(acc.target, 'id', '') == 'temperature'):
        raise Unsupported('rod1d._run: series loop does not accumulate into temperature')
    zero_init = [st for st in run.body if isinstance(st, ast.Assign) and getattr(st.targets[0], 'id', '') == 'temperature']
    ok0 = len(zero_init) == 2 and isinstance(zero_init[0].value, ast.Call) and getattr(zero_init[0].value.func, 'attr', '') == 'zeros'
    fin = zero_init[1].value if ok0 else None
    ok1 = ok0 and isinstance(fin, ast.BinOp) and isinstance(fin.op, ast.Add) and getattr(fin.left, 'id', '') == 'temperature' and getattr(fin.right, 'id', '') == 'tempnonhom'
    ret = run.body[-1]
    ok2 = isinstance(ret, ast.Return) and isinstance(ret.value, ast.Call) and getattr(ret.value.func, 'id', '') == 'ExactSolution' \
        and [getattr(e, 'id', None) for e in ret.value.args[0].elts] == ['x', 'temperature']
    if not (ok1 and ok2) or run.body.index(zero_init[1]) < run.body.index(loops[0]):
        raise Unsupported('rod1d._run: expected temperature = zeros; loop; temperature = temperature + tempnonhom; ExactSolution([x, temperature])')
    # series term as a function of the array elements
    term_body = [ast.Return(value=ArrToLocal(arrays, idx).visit(copy.deepcopy(acc.value)))]
    synth(mod, 'Rod1D', 'series_term', ['An_' + idx, 'Bn_' + idx, 'kn_' + idx, 'x', 't'], term_body)
    term, it = translate_method(mod, 'Rod1D', 'series_term', ['An_' + idx, 'Bn_' + idx, 'kn_' + idx, 'x', 't'], [], frozen_self=False)
    targs = sorted(free_vars(term))
    text = HEADER % 'exactpack/solvers/heat/rod1d.py'
    text += '\n(* one term of the series summed in Rod1D._run *)\n'
    text += emit_function('rod_term', targs, term) + '#[global] Hint Unfold rod_term : epgen.\n'
    js = {'term': {'args': targs, 'expr': expr_to_json(term)}, 'bc': {}}
    for K in range(4):
        t_init, b_init = br_init[K]
        t_run, b_run = br_run[K]
        if ast.dump(t_init) != ast.dump(t_run):
            raise Unsupported('rod1d: boundary-condition test %d differs between __init__ and _run' % (K + 1))
        if not (len(b_init) == 1 and isinstance(b_init[0], ast.Expr) and isinstance(b_init[0].value, ast.Call) and is_self_attr(b_init[0].value.func)):
            raise Unsupported('rod1d.__init__: branch %d is not a single self.modes_*() call' % (K + 1))
        mname = b_init[0].value.func.attr
        pfx = 'rod_bc%d' % (K + 1)
        # condition
        synth(mod, 'Rod1D', 'bc_test', [], [ast.Return(value=copy.deepcopy(t_init))])
        cond, _ = translate_method(mod, 'Rod1D', 'bc_test', [], [], frozen_self=False)
        if not is_cond(cond):
            raise Unsupported('rod1d: boundary-condition test %d is not a condition' % (K + 1))
        # modes
        mm = method(cn, mname)
        mloops = [st for st in mm.body if isinstance(st, ast.For)]
        pre = [st for st in mm.body if not isinstance(st, (ast.For, ast.Expr))]
        if len(mloops) != 1 or not range_of_self_attr(mloops[0], 'Nsum') or mm.body[-1] is not mloops[0]:
            raise Unsupported('rod1d.%s: expected assignments followed by one loop over range(self.Nsum)' % mname)
        midx = mloops[0].target.id
        tr = ArrToLocal(arrays, midx)
        body = copy.deepcopy(pre) + [ast.parse('%s_%s = 0.0' % (a, midx)).body[0] for a in arrays]
        body += [tr.visit(copy.deepcopy(x)) for x in mloops[0].body]
        body.append(ast.parse('return (kn_%s, An_%s, Bn_%s)' % (midx, midx, midx)).body[0])
        synth(mod, 'Rod1D', 'modes_fn', [midx], body)
        res, im = translate_method(mod, 'Rod1D', 'modes_fn', [midx], [], frozen_self=False)
        if im.raises or not (isinstance(res, (tuple, list)) and len(res) == 3):
            raise Unsupported('rod1d.%s: unexpected result / raise' % mname)
        # static part
        sbody = copy.deepcopy(b_run) + [ast.parse('return tempnonhom').body[0]]
        synth(mod, 'Rod1D', 'static_fn', ['x'], sbody)
        stat, isx = translate_method(mod, 'Rod1D', 'static_fn', ['x'], [], frozen_self=False)
        dom = dom_of(isx, 'rod1d._run branch %d' % (K + 1))
        params = sorted((set(free_vars(stat)) | set(free_vars(dom)) | set(v for e in res for v in free_vars(e))) - {'x', midx})
        text += '\n(* boundary-condition case %d: %s, modes from %s *)\n' % (K + 1, ast.unparse(t_init), mname)
        cargs = sorted(free_vars(cond))
        text += 'Definition %s_cond (%s : R) : Prop :=\n  %s.\n' % (pfx, ' '.join(cargs), coq_prop(cond))
        text += 'Definition %s_run_ok (%s : R) : Prop :=\n  %s.\n' % (pfx, ' '.join(params), coq_prop(dom))
        for nm, e in zip(('kn', 'An', 'Bn'), res):
            text += emit_function('%s_%s' % (pfx, nm), params + [midx], e) + '#[global] Hint Unfold %s_%s : epgen.\n' % (pfx, nm)
        text += emit_function('%s_static' % pfx, params + ['x'], stat) + '#[global] Hint Unfold %s_static : epgen.\n' % pfx
        allp = sorted(set(params) | (set(targs) - {'An_' + idx, 'Bn_' + idx, 'kn_' + idx, 'x', 't'}) | {'Nsum'})
        pa = ' '.join(params)
        call_term = '(rod_term %s)' % ' '.join({'An_' + idx: '(%s_An %s n)' % (pfx, pa), 'Bn_' + idx: '(%s_Bn %s n)' % (pfx, pa),
                                                'kn_' + idx: '(%s_kn %s n)' % (pfx, pa)}.get(a, a) for a in targs)
        text += 'Definition %s_temperature (%s x t : R) : R :=\n  %s_static %s x + sum_range (fun n : R => %s) 0 Nsum.\n' % (pfx, ' '.join(allp), pfx, pa, call_term)
        text += '#[global] Hint Unfold %s_temperature : epgen.\n' % pfx
        js['bc'][str(K + 1)] = {'modes': mname, 'cond': expr_to_json(cond), 'cond_args': cargs, 'run_ok': expr_to_json(dom), 'params': params,
                                'all_params': allp, 'index': midx,
                                'kn': expr_to_json(res[0]), 'An': expr_to_json(res[1]), 'Bn': expr_to_json(res[2]), 'static': expr_to_json(stat)}
    return text, js


def sandwiches(rodjs):
    """PlanarSandwich / Hot / Half: subclasses of Rod1D that fix alpha/beta as class constants and pass two of their own
    parameters as gamma1, gamma2 (self.gamma1 = kwargs.get("X", self.X) before calling Rod1D.__init__)"""
    from py2coq import eval_cond
    text = ''
    js = {}
    for fname, cname, pfx in (('planar_sandwich.py', 'PlanarSandwich', 'psandwich'), ('planar_sandwich_hot.py', 'PlanarSandwichHot', 'psandwich_hot'),
                              ('planar_sandwich_half.py', 'PlanarSandwichHalf', 'psandwich_half')):
        mod = Module(os.path.join(S, 'heat', fname))
        cn = mod.classes[cname]
        if [getattr(b, 'id', None) for b in cn.bases] != ['Rod1D']:
            raise Unsupported('%s does not derive from Rod1D' % cname)
        consts = {}
        for st in cn.body:
            if isinstance(st, ast.Assign) and isinstance(st.targets[0], ast.Name) and isinstance(st.value, ast.Constant) and isinstance(st.value.value, (int, float)):
                consts[st.targets[0].id] = st.value.value
        init = method(cn, '__init__')
        gam = {}
        for st in init.body:
            if isinstance(st, ast.Assign) and is_self_attr(st.targets[0]) and st.targets[0].attr in ('gamma1', 'gamma2'):
                v = st.value
                ok = isinstance(v, ast.Call) and isinstance(v.func, ast.Attribute) and v.func.attr == 'get' and getattr(v.func.value, 'id', '') == 'kwargs' \
                    and len(v.args) == 2 and isinstance(v.args[0], ast.Constant) and is_self_attr(v.args[1], v.args[0].value)
                if not ok:
                    raise Unsupported('%s.__init__: %s is not kwargs.get("X", self.X)' % (cname, st.targets[0].attr))
                gam[st.targets[0].attr] = v.args[0].value
            elif isinstance(st, ast.Expr) and isinstance(st.value, ast.Call) and isinstance(st.value.func, ast.Attribute) and st.value.func.attr == '__init__':
                pass
            elif isinstance(st, ast.Expr) and isinstance(st.value, ast.Constant):
                pass
            else:
                raise Unsupported('%s.__init__: unexpected statement line %d' % (cname, st.lineno))
        if sorted(gam) != ['gamma1', 'gamma2'] or any(k not in consts for k in ('alpha1', 'beta1', 'alpha2', 'beta2')):
            raise Unsupported('%s: gamma1/gamma2 mapping or alpha/beta constants not found' % cname)
        for m in ('_run', 'modes_BC1', 'modes_BC2', 'modes_BC3', 'modes_BC4'):
            if any(isinstance(st, ast.FunctionDef) and st.name == m for st in cn.body):
                raise Unsupported('%s overrides %s' % (cname, m))
        env = {k: float(consts[k]) for k in ('alpha1', 'beta1', 'alpha2', 'beta2')}
        K = [k for k in '1234' if eval_cond(gen.expr_from_json(rodjs['bc'][k]['cond']), env)]
        if len(K) != 1:
            raise Unsupported('%s: constants select %d boundary-condition cases' % (cname, len(K)))
        bc = rodjs['bc'][K[0]]
        own = sorted(set(gam.values()))
        params = [p for p in bc['all_params'] if p not in ('alpha1', 'beta1', 'alpha2', 'beta2', 'gamma1', 'gamma2')] + own
        def arg(p):
            if p in env:
                return coq_expr(num(consts[p]))
            if p in gam:
                return gam[p]
            return p
        text += '\n(* %s: Rod1D with alpha1=%s beta1=%s alpha2=%s beta2=%s (case BC%s), gamma1 = %s, gamma2 = %s *)\n' % (
            cname, consts['alpha1'], consts['beta1'], consts['alpha2'], consts['beta2'], K[0], gam['gamma1'], gam['gamma2'])
        text += 'Definition %s_temperature (%s x t : R) : R :=\n  rod_bc%s_temperature %s x t.\n' % (pfx, ' '.join(params), K[0], ' '.join(arg(p) for p in bc['all_params']))
        text += '#[global] Hint Unfold %s_temperature : epgen.\n' % pfx
        js[pfx] = {'class': cname, 'bc': K[0], 'params': params, 'gamma': gam, 'consts': {k: consts[k] for k in env},
                   'defaults': {k: v for k, v in consts.items() if k not in env and k != 'geometry'}}
    return text, js


def build():
    text, js = rod1d()
    t2, j2 = sandwiches(js)
    return {'Heat': (text + t2, {'rod': js, 'sandwich': j2})}
