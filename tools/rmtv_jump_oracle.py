#!/usr/bin/env python3
"""C02 failing-input search on the REAL Rmtv solver: the isothermal shock is located by bisection on the returned velocity, the states are read on
either side, and mass / momentum conservation and temperature continuity are evaluated with the unique speed for which the two returned states
conserve mass (s = [rho u]/[rho]; no knowledge of the solver needed). Non-default Gruneisen coefficient, gamma, g0, chi0."""
import harness as H

REAL = r'''
from exactpack.solvers.rmtv import Rmtv
def fields(s, r):
    q = s(np.array([r]), 0.0)
    return float(q.density[0]), float(q.velocity[0]), float(q.pressure[0]), float(q.temperature[0])
def main(payload):
    out = []
    for c in payload:
        try:
            s = Rmtv(**c['params'])
            g = s.rf / s.xif * s.xis
            lo, hi = 0.8 * g, 1.2 * g
            vlo, vhi = fields(s, lo)[1], fields(s, hi)[1]
            thr = 0.5 * (vlo + vhi)
            if not (vlo > thr > vhi):
                out.append({'error': 'no velocity drop bracketed'}); continue
            for _ in range(60):
                mid = 0.5 * (lo + hi)
                if fields(s, mid)[1] > thr: lo = mid
                else: hi = mid
            rs = 0.5 * (lo + hi); d = 1e-8
            r1, u1, p1, T1 = fields(s, rs * (1 - d)); r0, u0, p0, T0 = fields(s, rs * (1 + d))
            sm = (r1 * u1 - r0 * u0) / (r1 - r0)
            a1 = p1 + r1 * (u1 - sm) ** 2; a0 = p0 + r0 * (u0 - sm) ** 2
            out.append({'r_s': rs, 'behind': [r1, u1, p1, T1], 'ahead': [r0, u0, p0, T0], 'speed_from_mass': sm,
                        'momentum': (a1 - a0) / abs(a0), 'temperature': (T1 - T0) / T0, 'compression': r1 / r0})
        except Exception as ex:
            out.append({'error': type(ex).__name__ + ': ' + str(ex)[:200]})
    return out
'''


def cases(rng, n):
    out = [{'params': {}}, {'params': {'bigamma': 2.0}}]
    for _ in range(n):
        out.append({'params': {'bigamma': round(rng.uniform(0.4, 2.5), 3), 'gamma': round(rng.uniform(1.15, 1.6), 3), 'g0': round(rng.uniform(0.5, 3), 3),
                               'chi0': round(rng.uniform(0.5, 2), 3)}})
    return out


def oracle(rng, tier, reasons):
    cs = cases(rng, (3 if tier == 'quick' else 20) * (2 if reasons else 1))
    res = H.run_real(REAL, cs, timeout=1800)
    fails = []
    for c, r in zip(cs, res):
        if 'error' in r:
            continue
        if abs(r['momentum']) > 1e-5 or abs(r['temperature']) > 1e-5 or not r['compression'] > 1:
            fails.append({'solver': 'exactpack.solvers.rmtv.Rmtv', 'params': c['params'] or 'defaults', 'observed': r,
                          'why': 'states returned on either side of the isothermal shock do not conserve momentum with the mass-conserving shock speed, or the temperature jumps'})
    return fails


if __name__ == '__main__':
    import random, sys, json
    cs = cases(random.Random(1), 3)
    for c, r in zip(cs, H.run_real(REAL, cs, timeout=1800)):
        print(c['params'], json.dumps(r)[:300])
