#!/usr/bin/env python3
"""correspondence of gen/SedovEos.v: energy / sound speed returned by the real Sedov solver against the regenerated assembly formulas evaluated on the
pressure and density it returns, and Sedov.physical() on planted similarity values"""
import json
import os
from fractions import Fraction
import harness as H
from harness import qlit
from py2coq import coq_num

REAL = r'''
from exactpack.solvers.sedov import Sedov
def main(payload):
    out = []
    for c in payload:
        try:
            s = Sedov(**c['params'])
            sol = s(np.array(c['rs'], dtype=float), c['t'])
            rec = {n: [float(v) for v in sol[n]] for n in ('density', 'pressure', 'specific_internal_energy', 'sound_speed')}
            rec['phys'] = [float(v) for v in s.physical(*c['fgh'])]
            rec['jump'] = {'rho2': float(s.rho2), 'u2': float(s.u2), 'p2': float(s.p2)}
            out.append(rec)
        except Exception as ex:
            out.append({'error': type(ex).__name__ + ': ' + str(ex)[:200]})
    return out
'''


def unit_corr(rng, tier, prop):
    js = json.load(open(os.path.join(H.COQ, 'gen', 'SedovEos.json')))
    r4 = lambda lo, hi: float('%.4g' % rng.uniform(lo, hi))
    cases = []
    for i in range(3 if tier == 'quick' else 12):
        g = rng.choice([1, 2, 3])
        p = {'geometry': g, 'gamma': r4(1.2, 2.4), 'rho0': r4(0.5, 2.0), 'eblast': r4(0.3, 2.0)}
        cases.append({'params': p, 'rs': [r4(0.05, 0.3), r4(0.3, 0.6), r4(0.6, 0.9)], 't': r4(0.5, 1.5),
                      'fgh': [r4(0.1, 1.0), (0.0 if i % 3 == 2 else r4(0.1, 1.0)), r4(0.1, 1.0)]})
    res = H.run_real(REAL, cases)
    goals, dis = [], []

    def goal(nm, env, v):
        args = ' '.join(qlit(env[a]) for a in js[nm]['args'])
        tol = Fraction(1, 10 ** 9) * (abs(Fraction(v)) + Fraction(1, 1000))
        goals.append('Goal Rabs (%s %s - %s) <= %s.\nProof. autounfold with epgen. corr_solve. Qed.' % (nm, args, qlit(v), coq_num(tol)))
    for c, o in zip(cases, res):
        if 'error' in o:
            dis.append({'case': c, 'real': o, 'why': 'real implementation raised'})
            continue
        gam = c['params']['gamma']
        for k in range(len(c['rs'])):
            if o['density'][k] > 0:
                env = {'gamma': gam, 'pressure': o['pressure'][k], 'density': o['density'][k]}
                goal('sed_run_sie', env, o['specific_internal_energy'][k])
                goal('sed_run_snd', env, o['sound_speed'][k])
        env = dict(o['jump'], gamma=gam, f_fun=c['fgh'][0], g_fun=c['fgh'][1], h_fun=c['fgh'][2])
        for nm, v in zip(('den', 'vel', 'prs', 'sie', 'snd'), o['phys']):
            goal('sed_phys_' + nm, env, v)
    files = H.write_case_files('%s_sedoveos' % prop, 'gen.SedovEos', goals, per_file=30)
    return files, len(goals), dis, (cases[0] if cases else None)


if __name__ == '__main__':
    import random
    print(unit_corr(random.Random(0), 'quick', 'CXX')[:3])
