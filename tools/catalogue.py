#!/usr/bin/env python3
"""Builds the solver catalogue from the source text of /repo (Python ast, no imports of exactpack):
every class that derives (possibly across modules) from exactpack.base.ExactSolver, with its
parameters, defaults, the names/data passed to ExactSolution in _run, and a syntactic
input-mutation scan.  Emits coq/gen/Catalogue.v and coq/gen/Catalogue.json."""
import ast
import json
import os
import sys

sys.path.insert(0, os.path.dirname(os.path.abspath(__file__)))
import gen as G
from py2coq import Module, Interp, Unsupported, is_expr, has_tag

REPO = G.REPO
SOLVERS = os.path.join(REPO, 'exactpack', 'solvers')


def reaches_exactsolver(mod, cnode, seen=None):
    seen = seen or set()
    for b in cnode.bases:
        name = b.id if isinstance(b, ast.Name) else (b.attr if isinstance(b, ast.Attribute) else None)
        if name == 'ExactSolver':
            return True
        if name in mod.classes and name not in seen:
            seen.add(name)
            if reaches_exactsolver(mod, mod.classes[name], seen):
                return True
        elif name and name not in ('object',):
            r = G.resolve_import(mod, name)
            if r and reaches_exactsolver(r[0], r[1], seen):
                return True
    return False


def find_method(chain, name):
    for m, c in chain:
        for st in c.body:
            if isinstance(st, ast.FunctionDef) and st.name == name:
                return m, c, st
    return None


MUTATORS = {'sort', 'fill', 'resize', 'put', 'itemset', 'partition', 'byteswap', 'setfield', 'append', 'extend', 'reverse'}


def str_list(e, env):
    """evaluate an expression denoting a list of string literals (list literal, name bound earlier, +)"""
    if isinstance(e, (ast.List, ast.Tuple)) and all(isinstance(x, ast.Constant) and isinstance(x.value, str) for x in e.elts):
        return [x.value for x in e.elts]
    if isinstance(e, ast.Name) and e.id in env:
        return env[e.id]
    if isinstance(e, ast.BinOp) and isinstance(e.op, ast.Add):
        a, b = str_list(e.left, env), str_list(e.right, env)
        if a is not None and b is not None:
            return a + b
    return None


def scan_run(node):
    """returns (names or None, first_is_input, mutates_input, position arg name)"""
    args = [a.arg for a in node.args.args[1:]]
    parg = args[0] if args else None
    names = None
    first_is_input = False
    nsol = 0
    aliases = {parg}
    mutates = []
    cols = set()        # names bound to a column / component of the input (x = xylist[:, 0])
    lists = {}
    for st in ast.walk(node):
        if isinstance(st, ast.Assign) and isinstance(st.value, ast.Name) and st.value.id in aliases:
            for tg in st.targets:
                if isinstance(tg, ast.Name):
                    aliases.add(tg.id)
        if isinstance(st, ast.Assign) and len(st.targets) == 1 and isinstance(st.targets[0], ast.Name):
            v = st.value
            if isinstance(v, ast.Subscript) and isinstance(v.value, ast.Name) and v.value.id in aliases:
                cols.add(st.targets[0].id)
            sl = str_list(v, lists)
            if sl is not None:
                lists[st.targets[0].id] = sl
    for st in ast.walk(node):
        if isinstance(st, ast.Call):
            fn = st.func.id if isinstance(st.func, ast.Name) else (st.func.attr if isinstance(st.func, ast.Attribute) else None)
            if fn == 'ExactSolution':
                nsol += 1
                data = st.args[0] if st.args else None
                nm = None
                for k in st.keywords:
                    if k.arg == 'names':
                        nm = k.value
                if nm is None and len(st.args) > 1:
                    nm = st.args[1]
                these = str_list(nm, lists) if nm is not None else None
                if these is not None and names is None:
                    names = these
                d0 = None
                if isinstance(data, (ast.List, ast.Tuple)) and data.elts:
                    d0 = data.elts[0]
                elif isinstance(data, ast.ListComp) and names and isinstance(data.elt, ast.Subscript) and isinstance(data.elt.value, ast.Name):
                    # [store[name] for name in names]: the first column is store[names[0]]; accept when the function
                    # contains  store['<names[0]>'] = <input>
                    store = data.elt.value.id
                    for s2 in ast.walk(node):
                        if isinstance(s2, ast.Assign) and len(s2.targets) == 1 and isinstance(s2.targets[0], ast.Subscript) \
                                and isinstance(s2.targets[0].value, ast.Name) and s2.targets[0].value.id == store \
                                and isinstance(s2.targets[0].slice, ast.Constant) and s2.targets[0].slice.value == names[0] \
                                and isinstance(s2.value, ast.Name) and s2.value.id in aliases:
                            first_is_input = True
                if d0 is not None:
                    if isinstance(d0, ast.Name) and (d0.id in aliases or d0.id in cols):
                        first_is_input = True
                    if isinstance(d0, ast.Subscript) and isinstance(d0.value, ast.Name) and d0.value.id in aliases:
                        first_is_input = True
            if isinstance(st.func, ast.Attribute) and isinstance(st.func.value, ast.Name) and st.func.value.id in aliases \
                    and st.func.attr in MUTATORS:
                mutates.append('%s.%s() line %d' % (st.func.value.id, st.func.attr, st.lineno))
            for k in st.keywords:
                if k.arg == 'out' and isinstance(k.value, ast.Name) and k.value.id in aliases:
                    mutates.append('out=%s line %d' % (k.value.id, st.lineno))
        if isinstance(st, (ast.Assign, ast.AugAssign)):
            tgs = st.targets if isinstance(st, ast.Assign) else [st.target]
            for tg in tgs:
                base = tg
                while isinstance(base, (ast.Subscript, ast.Attribute)):
                    base = base.value
                if isinstance(tg, (ast.Subscript,)) and isinstance(base, ast.Name) and base.id in aliases:
                    mutates.append('%s[...] = line %d' % (base.id, st.lineno))
                if isinstance(st, ast.AugAssign) and isinstance(tg, ast.Name) and tg.id in aliases:
                    mutates.append('%s op= line %d' % (tg.id, st.lineno))
    return names, first_is_input, mutates, args


def build():
    out = []
    for root, dirs, files in os.walk(SOLVERS):
        if 'tests' in root:
            continue
        for fn in sorted(files):
            if not fn.endswith('.py'):
                continue
            path = os.path.join(root, fn)
            try:
                mod = G.load_module(path)
            except SyntaxError:
                continue
            for cname, cnode in mod.classes.items():
                if not reaches_exactsolver(mod, cnode):
                    continue
                chain = G.class_chain(mod, cname)
                params, allp, defaults = None, [], {}
                attrs = {}
                for (m, c) in reversed(chain):
                    a, p = G.class_attrs(m, c, Interp(m, {}))
                    attrs.update(a)
                    if p is not None:
                        params = p
                params = params or []
                have_default = [p for p in params if p in attrs]
                geo = attrs.get('geometry')
                geo = int(geo[1]) if (is_expr(geo) and geo[0] == 'num' and geo[1].denominator == 1) else None
                fm = find_method(chain, '_run')
                names, first, mut, rargs = (None, False, [], [])
                if fm:
                    names, first, mut, rargs = scan_run(fm[2])
                rel = os.path.relpath(path, REPO)
                out.append({'class': cname, 'module': rel[:-3].replace('/', '.'), 'file': rel, 'params': params,
                            'with_default': have_default, 'names': names, 'first_is_input': first, 'mutations': mut,
                            'geometry_default': geo, 'run_args': rargs, 'bases': [c.name for m, c in chain[1:]],
                            'own_methods': [st.name for st in cnode.body if isinstance(st, ast.FunctionDef)]})
    out.sort(key=lambda d: (d['module'], d['class']))
    return out


def q(s):
    return '"%s"%%string' % s


def emit(cat):
    lines = ["(* GENERATED by /verif/tools/catalogue.py from the source text of /repo/exactpack/solvers -- do not edit. *)",
             "From Coq Require Import List String Bool.", "Import ListNotations.", "",
             "Record solver_desc := {", "  s_class : string; s_module : string; s_params : list string; s_with_default : list string;",
             "  s_names_known : bool; s_names : list string; s_first_is_input : bool; s_mutates_input : bool;",
             "  s_bases : list string; s_own_methods : list string; s_geometry_default : option nat }.", "",
             "Definition all_solvers : list solver_desc := ["]
    items = []
    for d in cat:
        items.append("  {| s_class := %s; s_module := %s; s_params := [%s]; s_with_default := [%s];\n     s_names_known := %s; s_names := [%s]; s_first_is_input := %s; s_mutates_input := %s;\n     s_bases := [%s]; s_own_methods := [%s]; s_geometry_default := %s |}" % (
            q(d['class']), q(d['module']), '; '.join(q(p) for p in d['params']), '; '.join(q(p) for p in d['with_default']),
            'true' if d['names'] is not None else 'false', '; '.join(q(n) for n in (d['names'] or [])),
            'true' if d['first_is_input'] else 'false', 'true' if d['mutations'] else 'false',
            '; '.join(q(b) for b in d['bases']), '; '.join(q(b) for b in d['own_methods']),
            ('Some %d' % d['geometry_default']) if d['geometry_default'] is not None and d['geometry_default'] >= 0 else 'None'))
    lines.append(';\n'.join(items))
    lines.append("].")
    return '\n'.join(lines) + '\n'


def main():
    cat = build()
    outdir = os.path.join(os.path.dirname(os.path.dirname(os.path.abspath(__file__))), 'coq', 'gen')
    os.makedirs(outdir, exist_ok=True)
    text = emit(cat)
    p = os.path.join(outdir, 'Catalogue.v')
    if not os.path.exists(p) or open(p).read() != text:
        open(p, 'w').write(text)
    json.dump(cat, open(os.path.join(outdir, 'Catalogue.json'), 'w'), indent=1)
    print('catalogue     ok (%d classes)' % len(cat))


if __name__ == '__main__':
    main()
