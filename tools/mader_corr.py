#!/usr/bin/env python3
"""C17: correspondence of gen/Mader.v (translation of rare()) with the real per-cell function on random cells in the
fan, in the constant state and - most of them - in the cell that straddles the tail of the Taylor wave."""
import json
import math
import os
from fractions import Fraction
import harness as H
from harness import qlit
from py2coq import coq_num

REAL = r'''
from exactpack.solvers.mader.rarefaction import rare
def main(payload):
    out = []
    for c in payload:
        try:
            out.append([float(v) for v in rare(c['t'], c['xlab'], c['dx'], c['p_cj'], c['d_cj'], c['gam'], c['u_piston'])])
        except Exception as ex:
            out.append({'error': type(ex).__name__ + ': ' + str(ex)[:200]})
    return out
'''


def r4(rng, lo, hi):
    return float('%.5g' % rng.uniform(lo, hi))


def sample(rng):
    gam = r4(rng, 1.5, 3.5)
    d = r4(rng, 0.3, 1.5)
    p = r4(rng, 0.1, 1.0)
    t = r4(rng, 1.0, 8.0)
    up = rng.choice([0.0, r4(rng, 0.0, 0.15) * d])
    dx = r4(rng, 0.005, 0.1)
    c_cj = gam * d / (gam + 1); u_cj = d / (gam + 1)
    um = (gam - 1) * (u_cj - 2 * c_cj / (gam - 1)) / (gam + 1)
    xp = 0.5 * (gam + 1) * t * (up - um)
    kind = rng.choice(['trans', 'trans', 'fan', 'const', 'near'])
    if kind == 'trans':
        xdet = xp + rng.uniform(-0.09, 0.09) * dx
    elif kind == 'near':
        xdet = xp + rng.choice([-1, 1]) * rng.uniform(0.12, 0.6) * dx
    elif kind == 'fan':
        xdet = xp + rng.uniform(0.2, 1.0) * (d * t - xp)
    else:
        xdet = xp * rng.uniform(0.05, 0.9)
    xlab = float('%.9g' % (d * t - xdet))
    return {'t': t, 'xlab': xlab, 'dx': dx, 'p_cj': p, 'd_cj': d, 'gam': gam, 'u_piston': up, 'kind': kind}


def unit_corr(rng, tier, prop):
    js = json.load(open(os.path.join(H.COQ, 'gen', 'Mader.json')))
    n = 12 if tier == 'quick' else 120
    cases = [sample(rng) for _ in range(n)]
    res = H.run_real(REAL, cases)
    goals, dis = [], []
    hit = {}
    for c, r in zip(cases, res):
        if isinstance(r, dict):
            dis.append({'case': c, 'real': r, 'why': 'real implementation raised'})
            continue
        # skip cells whose branch guard is within rounding of its boundary (|dist - tol| tiny)
        hit[c['kind']] = hit.get(c['kind'], 0) + 1
        for nm, v in zip(['mader_u', 'mader_p', 'mader_c', 'mader_rho', 'mader_xdet'], r):
            if not math.isfinite(v):
                dis.append({'case': c, 'field': nm, 'value': repr(v), 'why': 'real implementation returned a non-finite value'})
                continue
            env = dict(c, t=c['t'])
            args = ' '.join(qlit(env[a]) for a in js[nm]['args'])
            tol = Fraction(1, 10 ** 8) * (abs(Fraction(v)) + Fraction(1, 100))
            goals.append('Goal Rabs (%s %s - %s) <= %s.\nProof. autounfold with epgen. corr_solve. Qed.' % (nm, args, qlit(v), coq_num(tol)))
    files = H.write_case_files('%s_mader' % prop, 'gen.Mader', goals, per_file=20)
    sample_case = dict(cases[0], cells_by_kind=hit) if cases else None
    return files, len(goals), dis, sample_case
