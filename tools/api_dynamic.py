#!/usr/bin/env python3
"""Dynamic side of C05: run every public solver class of the catalogue through the uniform contract on the
REAL implementation (containers, order, positions unchanged, input not modified, names, CSV round trip,
constructor errors) and compare with the Api/Csv models' predictions."""
import json
import os
import harness as H

SCRIPT = r'''
import warnings
import importlib, csv, tempfile, os, copy, random
def pts_for(cls, mod, rng, n):
    name = cls.__name__
    two_d = ('kenamond', 'dsd', 'rectangle', 'hutchens2', 'cylindrical_sandwich', 'riemann2D')
    if 'riemann2D' in mod:
        return [[rng.uniform(0.2, 1.0), rng.uniform(-0.5, 0.5)] for _ in range(n)], 1.0, 'rows'
    if 'kenamond3' in mod:
        pts = []
        while len(pts) < n:
            x, y = rng.uniform(-8, 8), rng.uniform(-8, 8)
            if (x * x + y * y) > 3.1 ** 2:
                pts.append([x, y])
        return pts, 1.0, 'rows'
    if 'kenamond' in mod or 'dsd' in mod:
        return [[rng.uniform(0.5, 4.0), rng.uniform(0.5, 4.0)] for _ in range(n)], 1.0, 'rows'
    if 'rectangle' in mod or 'hutchens2' in mod or 'cylindrical_sandwich' in mod:
        return [[rng.uniform(0.05, 0.9) for _ in range(n)], [rng.uniform(0.05, 0.9) for _ in range(n)]], 0.05, 'cols'
    t = 0.3
    lo, hi = 0.1, 1.0
    if 'noh2' in mod: t = 0.4
    if 'heat' in mod: t, lo, hi = 0.05, 0.05, 0.95
    if 'ehep' in mod: t, lo, hi = 1.0, 0.0, 1.5
    if 'sdrz' in mod: t, lo, hi = 1.0e-6, 0.0, 0.01
    if 'mader' in mod: t, lo, hi = 6.25e-6, 0.0, 5.0
    if 'blake' in mod: t, lo, hi = 1.6e-4, 0.1, 1.0
    if 'ep_piston' in mod: t, lo, hi = 1.0e-6, 0.0, 0.01
    if 'rmtv' in mod: t, lo, hi = 0.0511, 0.05, 1.2
    if 'suolson' in mod: t, lo, hi = 1.0e-9, 0.1, 10.0
    if 'guderley' in mod: t, lo, hi = -1.0, 0.1, 3.0
    if 'radshocks' in mod: t, lo, hi = 0.0, -0.02, 0.02
    if 'sedov' in mod: t, lo, hi = 1.0, 0.05, 1.2
    return sorted(rng.uniform(lo, hi) for _ in range(n)), t, 'flat'

def same(a, b):
    a = np.asarray(a); b = np.asarray(b)
    if a.dtype.kind in 'USO' or b.dtype.kind in 'USO':
        return a.shape == b.shape and bool(np.all(a == b))
    a = a.astype(float); b = b.astype(float)
    return a.shape == b.shape and bool(np.all((a == b) | (np.isnan(a) & np.isnan(b))))

import exactpack.base as _base
_orig_init = _base.ExactSolver.__init__
_seen = []
def _recording_init(self, verbose=False, **params):
    rec = {'given': sorted(params.keys()), 'declared': list(self.parameters),
           'attrs': [p for p in self.parameters if hasattr(self, p)], 'raised': None}
    _seen.append(rec)
    try:
        return _orig_init(self, verbose=verbose, **params)
    except ValueError as ex:
        rec['raised'] = 'ValueError'
        raise
_base.ExactSolver.__init__ = _recording_init

def check(entry, seed):
    rng = random.Random(seed)
    out = {'class': entry['class'], 'module': entry['module']}
    mod = importlib.import_module(entry['module'])
    cls = getattr(mod, entry['class'])
    # ---- constructor contract (model: base_init)
    import inspect
    try:
        sig = inspect.signature(cls.__init__)
        needs_positional = [p for p in list(sig.parameters.values())[1:] if p.default is p.empty and p.kind in (p.POSITIONAL_ONLY, p.POSITIONAL_OR_KEYWORD)]
    except Exception:
        needs_positional = []
    extra_args = []
    if needs_positional:
        if 'nohblackboxeos' in entry['module']:
            from exactpack.solvers.nohblackboxeos.equations_of_state.eos_library import ideal_gas_eos
            extra_args = [ideal_gas_eos(5.0 / 3.0)]
        else:
            out['skipped'] = 'constructor needs positional arguments'
            return out
    def construct(**kw):
        try:
            return cls(*extra_args, **kw), None
        except Exception as ex:
            return None, type(ex).__name__
    del _seen[:]
    s, err = construct()
    out['base_init_calls'] = [dict(r) for r in _seen]
    del _seen[:]
    declared = list(cls.parameters)
    missing = [p for p in declared if not hasattr(cls, p)]
    out['declared'] = declared; out['missing_defaults'] = missing
    out['default_construct_error'] = err
    _, e_unknown = construct(**{'no_such_parameter_xyz': 1})
    out['unknown_param_error'] = e_unknown
    # names that only a base class declares (e.g. geometry for a geometry wrapper, a parameter the wrapper fixes) are unknown to this class
    inherited = []
    for b in cls.__mro__[1:]:
        for nm in (getattr(b, 'parameters', None) or {}):
            if nm not in declared and nm not in inherited:
                inherited.append(nm)
    out['inherited_only'] = {}
    for nm in inherited[:4]:
        val = getattr(cls, nm, 1)
        for v in ([val] if val in (1, 2, 3) else [val])[:1] + ([3 if val != 3 else 1] if nm == 'geometry' else []):
            _, e = construct(**{nm: v})
            out['inherited_only']['%s=%r' % (nm, v)] = e
    out['base_init_calls'] += [dict(r) for r in _seen]
    del _seen[:]
    if s is None:
        out['skipped'] = 'default construction raised ' + str(err)
        return out
    if entry.get('construct_only'):
        out['skipped'] = 'call contract exercised in the thorough tier only (slow solver)'
        return out
    # ---- call contract
    n = 6
    pts, t, layout = pts_for(cls, entry['module'], rng, n)
    try:
        arr = np.array(pts, dtype=float)
        before = arr.copy()
        solA = s(arr, t)
        out['input_unchanged'] = bool(np.array_equal(arr, before))
        solL = s(pts, t)                                   # nested lists
        solT = s(tuple(tuple(p) if isinstance(p, list) else p for p in pts), t)
        names = list(solA.dtype.names)
        out['names'] = names
        out['n_records'] = int(len(solA)); out['n_points'] = n
        out['list_equals_array'] = all(same(solA[k], solL[k]) for k in names) and list(solL.dtype.names) == names
        out['tuple_equals_array'] = all(same(solA[k], solT[k]) for k in names) and list(solT.dtype.names) == names
        # positions returned unchanged as first field(s)
        if layout == 'flat':
            out['positions_first'] = same(solA[names[0]], arr)
        elif layout == 'rows':
            out['positions_first'] = same(solA[names[0]], arr[:, 0]) and same(solA[names[1]], arr[:, 1])
        else:
            out['positions_first'] = same(solA[names[0]], arr[0]) and same(solA[names[1]], arr[1])
        # integer positions behave like the same numbers as floats
        if layout == 'flat' and not any(k in entry['module'] for k in ('sdrz', 'ep_piston', 'radshocks', 'mader')):
            ints = [1, 2, 3]
            try:
                si = s(ints, t); sf = s([1.0, 2.0, 3.0], t)
                out['int_equals_float'] = all(same(si[k], sf[k]) for k in names)
            except Exception as ex:
                out['int_equals_float'] = 'raised ' + type(ex).__name__
        # order: a permutation of the interior points (first and last kept, because documented grid-dependent solvers
        # take their cell size / window from the end points) permutes the records in the same way
        if layout == 'flat' and n >= 4:
            perm = list(range(n))
            mid = perm[1:-1]; rng.shuffle(mid)
            if mid == perm[1:-1]:
                mid = mid[::-1]
            perm = [0] + mid + [n - 1]
            # three permutations of the interior: a random shuffle, the reversal, one swap of neighbours (a defect may need a particular order:
            # ie_Solver's non-monotone interpolation grid showed only for some)
            perms = [perm, [0] + list(range(n - 2, 0, -1)) + [n - 1], [0, 2, 1] + list(range(3, n))]
            try:
                okp = True
                for perm in perms:
                    solP = s(arr[perm], t)
                    for k in names:
                        a_, b_ = np.asarray(solA[k])[perm], np.asarray(solP[k])
                        if a_.dtype.kind in 'USO':
                            okp = okp and bool(np.all(a_ == b_))
                        else:
                            a_ = a_.astype(float); b_ = b_.astype(float)
                            okp = okp and bool(np.all((np.abs(a_ - b_) <= 1e-9 * (np.abs(a_) + np.abs(b_)) + 1e-300) | (np.isnan(a_) & np.isnan(b_))))
                    if not okp:
                        break
                out['order_preserved'] = okp
                out['order_perm'] = perm
            except Exception as ex:
                out['order_preserved'] = 'raised ' + type(ex).__name__
        # special positions: the origin / left end of the domain (0.0) and a duplicated point - positions must come back unchanged, the
        # caller's array must not be touched, one record per point (values there may legitimately be nan)
        if layout == 'flat':
            try:
                sp_ = np.array([0.0] + [float(v) for v in arr[:3]] + [float(arr[1])], dtype=float)
                keep = sp_.copy()
                with warnings.catch_warnings():
                    warnings.simplefilter('ignore')
                    solS = s(sp_, t)
                out['special_points_contract'] = bool(np.array_equal(sp_, keep)) and len(solS) == len(keep) and same(solS[names[0]], keep)
                out['special_points'] = [float(v) for v in keep]
            except Exception as ex:
                out['special_points_contract'] = 'raised ' + type(ex).__name__
        # ---- CSV round trip
        fd, path = tempfile.mkstemp(suffix='.csv'); os.close(fd)
        try:
            solA.dump(path)
            with open(path, newline='') as f:
                rows = list(csv.reader(f))
            raw = open(path, newline='').read()
        finally:
            os.remove(path)
        out['csv_header_ok'] = rows[0] == names
        out['csv_rows'] = len(rows) - 1
        ok = True
        for i, row in enumerate(rows[1:]):
            for k, cell in zip(names, row):
                try:
                    v = float(solA[k][i]); w = float(cell)
                    if not (v == w or (v != v and w != w)):
                        ok = False
                except ValueError:
                    if str(solA[k][i]) != cell:
                        ok = False
        out['csv_values_exact'] = ok
        out['csv_cells_plain'] = all((',' not in c and '"' not in c and '\n' not in c) for r_ in rows for c in r_)
        out['csv_sample_cells'] = rows[1][:3] if len(rows) > 1 else []
        out['csv_raw_head'] = raw[:120]
    except Exception as ex:
        out['skipped'] = 'call raised %s: %s' % (type(ex).__name__, str(ex)[:120])
    return out

def main(payload):
    res = []
    for entry in payload['entries']:
        try:
            res.append(check(entry, payload['seed']))
        except Exception as ex:
            res.append({'class': entry['class'], 'module': entry['module'], 'skipped': 'harness: %s %s' % (type(ex).__name__, str(ex)[:200])})
    return res
'''


def run(seed, entries):
    return H.run_real(SCRIPT, {'seed': seed, 'entries': entries}, timeout=3000)
