#!/usr/bin/env python3
"""C17 oracle on the REAL implementation: signs, compressive shocks, monotone fans, between-ness of the returned fields
along fine point sequences, for every solver the property lists.  Used (a) as failing-input search when a theorem or the
correspondence breaks, (b) as the only check for the solvers / glue no theorem covers (class C)."""
import harness as H

SCRIPT = r'''
import warnings
TOL = 1e-9

def arr(sol, k):
    return np.asarray(sol[k], float)

def bad_sign(name, a, strict=False, allow_nan=False):
    a = np.asarray(a, float)
    out = {}
    nan = ~np.isfinite(a)
    if nan.any() and not allow_nan:
        out[name + '_not_finite'] = {'index': int(np.nonzero(nan)[0][0])}
    b = a[~nan]
    if b.size and ((b <= 0).any() if strict else (b < 0).any()):
        i = int(np.argmin(a if not nan.any() else np.where(nan, np.inf, a)))
        out[name + ('_not_positive' if strict else '_negative')] = {'index': i, 'value': float(a[i])}
    return out

def monotone(name, x, f, direction, out, scale=None):
    """direction +1: non-decreasing in x, -1: non-increasing"""
    f = np.asarray(f, float)
    if f.size < 2:
        return
    s = scale if scale is not None else (np.max(np.abs(f)) + 1e-300)
    d = np.diff(f) * direction
    if (d < -1e-8 * s).any():
        i = int(np.argmin(d))
        out[name + '_not_monotone'] = {'x': [float(x[i]), float(x[i + 1])], 'values': [float(f[i]), float(f[i + 1])], 'expected': 'non-decreasing' if direction > 0 else 'non-increasing'}

def between(name, x, f, lo, hi, out):
    f = np.asarray(f, float)
    lo, hi = min(lo, hi), max(lo, hi)
    s = max(abs(lo), abs(hi), 1e-300)
    m = (f < lo - 1e-8 * s) | (f > hi + 1e-8 * s)
    if m.any():
        i = int(np.nonzero(m)[0][0])
        out[name + '_outside_neighbouring_states'] = {'x': float(x[i]), 'value': float(f[i]), 'range': [float(lo), float(hi)]}

# ------------------------------------------------------------------ Noh
def noh(c):
    from exactpack.solvers.noh.noh1 import Noh
    P = c['params']; t = c['t']
    s = Noh(**P)
    g = P.get('gamma', 5.0 / 3.0); u0 = P.get('u0', -1.0)
    rs = 0.5 * (g - 1) * abs(u0) * t
    x = np.concatenate([np.linspace(rs * 0.01, rs * (1 - 1e-6), 60), np.linspace(rs * (1 + 1e-6), rs * 4, 60)])
    sol = s(x, t)
    out = {}
    out.update(bad_sign('density', arr(sol, 'density'), strict=True))
    out.update(bad_sign('pressure', arr(sol, 'pressure')))
    out.update(bad_sign('specific_internal_energy', arr(sol, 'specific_internal_energy')))
    r, p = arr(sol, 'density'), arr(sol, 'pressure')
    # material crosses the shock from outside to inside: density and pressure rise inward
    if not (r[59] > r[60] and p[59] > p[60]):
        out['shock_not_compressive'] = {'inside': [float(r[59]), float(p[59])], 'outside': [float(r[60]), float(p[60])]}
    return out

# ------------------------------------------------------------------ Sedov
def sedov(c):
    from exactpack.solvers.sedov import Sedov
    P = c['params']; t = c['t']
    s = Sedov(**P)
    # locate the shock from a coarse sweep
    x = np.linspace(1e-3, c['rmax'], 400)
    sol = s(x, t)
    r, p, u, e, cs = (arr(sol, k) for k in ('density', 'pressure', 'velocity', 'specific_internal_energy', 'sound_speed'))
    out = {}
    out.update(bad_sign('density', r))
    out.update(bad_sign('pressure', p))
    vac = r == 0            # documented vacuum: density exactly zero, energy per mass and sound speed undefined there
    out.update(bad_sign('specific_internal_energy', e[~vac]))
    out.update(bad_sign('sound_speed', cs[~vac]))
    moving = np.nonzero(u > 0)[0]
    if moving.size and moving[-1] + 1 < len(x):
        k = moving[-1]
        om = P.get('omega', 0.0)
        amb = P.get('rho0', 1.0) * x[k + 1] ** (-om)
        if not (r[k] > amb * (1 - 1e-6) and p[k] > p[k + 1]):
            out['shock_not_compressive'] = {'behind': [float(r[k]), float(p[k])], 'ahead': [float(r[k + 1]), float(p[k + 1])]}
        # ahead of the shock: undisturbed
        ah = slice(k + 2, None)
        if ah.start < len(x):
            da = np.abs(r[ah] - P.get('rho0', 1.0) * x[ah] ** (-om)) / (P.get('rho0', 1.0) * x[ah] ** (-om))
            # the solver interpolates linearly on its own 3001-point grid over [0, max(r)] (documented resolution): for the ambient power law the
            # relative interpolation error is at most omega (omega + 1) / 8 (dr / r)^2; four times that bound is allowed on top of 1e-4
            dr = float(np.max(x)) / 3000.0
            tol_a = 1e-4 + 4 * om * (om + 1) / 8.0 * (dr / np.maximum(x[ah] - dr, dr)) ** 2
            if (da > tol_a).any() or (np.abs(u[ah]) > 0).any():
                out['ahead_not_undisturbed'] = {'max_rel_density_error': float(da.max()), 'max_speed': float(np.abs(u[ah]).max())}
    return out

# ------------------------------------------------------------------ Guderley
def guderley(c):
    from exactpack.solvers.guderley import Guderley
    P = c['params']; t = c['t']
    s = Guderley(**P)
    x = np.linspace(0.05, 3.0, 150)
    sol = s(x, t)
    out = {}
    out.update(bad_sign('density', arr(sol, 'density'), strict=True))
    out.update(bad_sign('pressure', arr(sol, 'pressure')))
    out.update(bad_sign('specific_internal_energy', arr(sol, 'specific_internal_energy')))
    out.update(bad_sign('sound_speed', arr(sol, 'sound_speed')))
    r, p = arr(sol, 'density'), arr(sol, 'pressure')
    d = np.abs(np.diff(r)) / np.maximum(r[1:], r[:-1])
    k = int(np.argmax(d))
    if d[k] > 0.2:
        # converging (t<0): material outside is unshocked; diverging (t>0): material outside the reflected shock is once-shocked
        hi, lo = (k, k + 1) if r[k] > r[k + 1] else (k + 1, k)
        if not (p[hi] > p[lo]):
            out['shock_not_compressive'] = {'dense_side': [float(r[hi]), float(p[hi])], 'other_side': [float(r[lo]), float(p[lo])]}
    return out

# ------------------------------------------------------------------ 1-D Riemann
def riemann(c):
    from exactpack.solvers.riemann.ep_riemann import IGEOS_Solver, GenEOS_Solver
    from exactpack.solvers.riemann import riemann as R
    P = c['params']; t = c['t']
    ig = c['class'] == 'IGEOS_Solver'
    cls = IGEOS_Solver if ig else GenEOS_Solver
    keys = ('xmin', 'xd0', 'xmax', 'rl', 'ul', 'pl', 'gl', 'rr', 'ur', 'pr', 'gr')
    prob = (R.RiemannIGEOS if ig else R.RiemannGenEOS)(t=t, **{k: P[k] for k in keys})
    prob.driver(np.array([P['xd0']]))
    X = [float(v) for v in prob.Xregs]; typ = prob.soln_type
    s = cls(**P)
    out = {}
    left_fan = typ[0] in 'rR'; right_fan = (typ.split('-')[2][0] in 'rR') if '-' in typ else (typ[-1] == 'R')
    edges = [min(X) - 0.2] + X + [max(X) + 0.2]
    # region index -> kind
    kinds = (['L', 'fanL'] if left_fan else ['L']) + ['s1', 's2'] + (['fanR', 'R'] if right_fan else ['R'])
    if len(kinds) != len(edges) - 1:
        return {}
    # the waves are reported from left to right: a wave position behind its left neighbour means a wave was given the speed of the other family
    if any(b < a - 1e-9 * (1 + abs(a)) for a, b in zip(X[:-1], X[1:])):
        out['wave_positions_not_ordered'] = {'pattern': typ, 'Xregs': X}
    states = {}
    pad = 1e-6 if ig else 2e-2      # the general-EOS driver interpolates its own grid across the waves
    allf = {}
    for kd, lo, hi in zip(kinds, edges[:-1], edges[1:]):
        if hi - lo < 4 * pad * (1 + abs(lo)):
            continue
        xs = np.linspace(lo + pad * (1 + abs(lo)), hi - pad * (1 + abs(hi)), 41)
        sol = s(xs, t)
        f = {k: arr(sol, k) for k in ('pressure', 'density', 'velocity', 'specific_internal_energy')}
        allf[kd] = (xs, f)
        out.update({kd + ':' + k: v for k, v in bad_sign('density', f['density'], strict=True).items()})
        out.update({kd + ':' + k: v for k, v in bad_sign('pressure', f['pressure'], strict=True).items()})
        out.update({kd + ':' + k: v for k, v in bad_sign('specific_internal_energy', f['specific_internal_energy']).items()})
        states[kd] = {k: (float(v[0]), float(v[-1])) for k, v in f.items()}
    tolr = 1e-7 if ig else 2e-3
    def gt(a, b):
        return a > b * (1 - tolr) - tolr
    # shocks compressive
    if not left_fan and 'L' in states and 's1' in states:
        if not (gt(states['s1']['pressure'][0], states['L']['pressure'][1]) and gt(states['s1']['density'][0], states['L']['density'][1])):
            out['left_shock_not_compressive'] = {'ahead': states['L'], 'behind': states['s1']}
    if not right_fan and 'R' in states and 's2' in states:
        if not (gt(states['s2']['pressure'][1], states['R']['pressure'][0]) and gt(states['s2']['density'][1], states['R']['density'][0])):
            out['right_shock_not_compressive'] = {'ahead': states['R'], 'behind': states['s2']}
    # fans monotone and between their neighbours
    for kd, a, b, dr in (('fanL', 'L', 's1', -1), ('fanR', 's2', 'R', +1)):
        if kd in allf and a in states and b in states:
            xs, f = allf[kd]
            sub = {}
            monotone('pressure', xs, f['pressure'], dr, sub)
            monotone('density', xs, f['density'], dr, sub)
            monotone('velocity', xs, f['velocity'], +1, sub, scale=np.max(np.abs(f['velocity'])) + 1.0)
            for k in ('pressure', 'density', 'velocity'):
                lo_, hi_ = states[a][k][1], states[b][k][0]
                if not ig:
                    w = 3e-3 * (abs(lo_) + abs(hi_) + (1.0 if k == 'velocity' else 0.0))
                    lo_, hi_ = min(lo_, hi_) - w, max(lo_, hi_) + w
                between(k, xs, f[k], lo_, hi_, sub)
            out.update({kd + ':' + k: v for k, v in sub.items()})
    # constant states are constant
    for kd in ('L', 's1', 's2', 'R'):
        if kd in allf:
            xs, f = allf[kd]
            for k in ('pressure', 'density', 'velocity'):
                sc = np.max(np.abs(f[k])) + (1.0 if k == 'velocity' else 1e-300)
                if np.ptp(f[k]) > (1e-9 if ig else 5e-3) * sc:
                    out[kd + ':' + k + '_not_constant'] = {'min': float(f[k].min()), 'max': float(f[k].max())}
    return out

# ------------------------------------------------------------------ EHEP
def ehep(c):
    from exactpack.solvers.ehep import EscapeOfHEProducts
    P = c['params']; t = c['t']
    s = EscapeOfHEProducts(**P)
    x = np.linspace(-2.0 * P['D'] * t, P['D'] * t * 1.2, 400)
    # plus a fine sweep through the escape front x = D t and the other region boundaries, where clamps guard fractional powers
    fr = P['D'] * t
    x = np.concatenate([x, fr + np.linspace(-5e-6, 5e-6, 401), fr * (1 + np.linspace(-1e-9, 1e-9, 21)), [fr]])
    x = np.sort(x[(x <= P['xmax'])])
    sol = s(x, t)
    out = {}
    for k in ('density', 'pressure', 'sound_speed', 'specific_internal_energy'):
        out.update(bad_sign(k, arr(sol, k), allow_nan=True))
    return out

# ------------------------------------------------------------------ Mader
def mader(c):
    from exactpack.solvers.mader import Mader
    P = c['params']; t = c['t']
    s = Mader(**P)
    n = c['n']
    # the detonation was started at x = d_cj t and has just reached x = 0: the slab is [0, d_cj t]; x = d_cj t is the rear (piston) end
    x = np.linspace(0.0, P['d_cj'] * t, n)
    sol = s(x, t)
    u, p, cs, r = (arr(sol, k) for k in ('velocity', 'pressure', 'sound_speed', 'density'))
    out = {}
    out.update(bad_sign('pressure', p, strict=True))
    out.update(bad_sign('density', r, strict=True))
    out.update(bad_sign('sound_speed', cs, strict=True))
    # Taylor wave: from the CJ state at the front (x = 0) down to the constant state at the piston everything falls monotonically
    # with x - including the cell that straddles the tail of the wave
    for k, f in (('velocity', u), ('pressure', p), ('sound_speed', cs), ('density', r)):
        monotone(k, x, f, -1, out, scale=np.max(np.abs(f)) + (abs(P['d_cj']) if k == 'velocity' else 0.0))
    return out

# ------------------------------------------------------------------ SDRZ
def sdrz(c):
    from exactpack.solvers.sdrz import SteadyDetonationReactionZone
    P = c['params']; t = c['t']
    s = SteadyDetonationReactionZone(**P)
    D = P.get('D', 0.85)
    x = np.linspace(0.0, D * t * 0.999, 200)
    sol = s(x, t)
    out = {}
    for k in ('pressure', 'density', 'sound_speed'):
        out.update(bad_sign(k, arr(sol, k), strict=True))
    lam = arr(sol, 'reaction_progress')
    if (lam < -1e-12).any() or (lam > 1 + 1e-12).any():
        out['reaction_progress_outside_unit_interval'] = {'min': float(lam.min()), 'max': float(lam.max())}
    # towards the front (increasing x) the reaction is less complete: pressure and density rise, velocity rises
    monotone('pressure', x, arr(sol, 'pressure'), +1, out)
    monotone('density', x, arr(sol, 'density'), +1, out)
    monotone('reaction_progress', x, lam, -1, out, scale=1.0)
    return out

# ------------------------------------------------------------------ EP piston
def piston(c):
    from exactpack.solvers.ep_piston import EPpiston
    P = c['params']; t = c['t']
    s = EPpiston(**P)
    xmax = s.wv_el * t * 1.5
    x = np.linspace(0.0, xmax, 300)
    sol = s._run(x, t)
    out = {}
    r, p, e, v = (arr(sol, k) for k in ('density', 'pressure', 'specific_internal_energy', 'velocity'))
    out.update(bad_sign('density', r, strict=True))
    out.update(bad_sign('pressure', p))
    out.update(bad_sign('specific_internal_energy', e))
    # piston pushes from x=0: towards the piston density, pressure, velocity are larger (two compressive waves)
    monotone('density', x, r, -1, out)
    monotone('pressure', x, p, -1, out)
    monotone('velocity', x, v, -1, out, scale=abs(P.get('up', 1.0)) + 1e-300)
    return out

# ------------------------------------------------------------------ Su-Olson
def suolson(c):
    from exactpack.solvers.suolson import SuOlson
    P = c['params']
    s = SuOlson(**P)
    Tb = P.get('trad_bc_ev', SuOlson.trad_bc_ev)
    out = {}
    prev = None
    ATOL = 2e-5          # the quadratures are asked for absolute accuracy 1e-6..1e-10 on u and v
    for t in c['times']:
        x = np.array(c['xs'], float)
        sol = s(x, t)
        tr = arr(sol, 'temperature_rad'); tm = arr(sol, 'temperature_mat')
        out.update(bad_sign('temperature_rad', tr)); out.update(bad_sign('temperature_mat', tm))
        u = (tr / Tb) ** 4; v = (tm / Tb) ** 4
        if (v > u + ATOL).any():
            i = int(np.argmax(v - u)); out['material_hotter_than_radiation'] = {'t': t, 'x': float(x[i]), 'v': float(v[i]), 'u': float(u[i])}
        if (u > 1 + ATOL).any():
            i = int(np.argmax(u)); out['radiation_hotter_than_boundary'] = {'t': t, 'x': float(x[i]), 'u': float(u[i])}
        for nm, f in (('u', u), ('v', v)):
            d = np.diff(f)
            if (d > ATOL).any():
                i = int(np.argmax(d)); out[nm + '_not_decreasing_in_x'] = {'t': t, 'x': [float(x[i]), float(x[i + 1])], 'values': [float(f[i]), float(f[i + 1])]}
        if prev is not None:
            if ((u - prev[0]) < -ATOL).any() or ((v - prev[1]) < -ATOL).any():
                out['not_increasing_in_time'] = {'t': t, 'u': [float(z) for z in u], 'u_earlier': [float(z) for z in prev[0]]}
        prev = (u, v)
    return out

# ------------------------------------------------------------------ radiative shocks
def radshock(c):
    import importlib
    m = importlib.import_module('exactpack.solvers.radshocks')
    cls = getattr(m, c['class'])
    s = cls(**c['params'])
    x = np.linspace(-0.02, 0.02, 200)
    sol = s(x, 0.0)
    out = {}
    names = sol.dtype.names
    for k in names:
        lk = k.lower()
        if lk.startswith('position'):
            continue
        if 'density' in lk or 'temperature' in lk or 'pressure' in lk or 'sie' in lk or 'energy' in lk:
            out.update(bad_sign(k, arr(sol, k), strict=True))
    dn = [k for k in names if k.lower() in ('density', 'density_mat', 'mass_density')]
    tn = [k for k in names if 'temperature' in k.lower()]
    if dn:
        r = arr(sol, dn[0])
        # material flows in the +x direction of the profile frame from the upstream (low density) to the downstream side
        if not (max(r[0], r[-1]) > min(r[0], r[-1]) * 1.0001):
            out['no_compression'] = {'ends': [float(r[0]), float(r[-1])]}
        lo, hi = min(r[0], r[-1]), max(r[0], r[-1])
        # the density may overshoot only in the Zel'dovich spike region; far-field bounded check is not asserted
    return out

KIND = dict(noh=noh, sedov=sedov, guderley=guderley, riemann=riemann, ehep=ehep, mader=mader, sdrz=sdrz, piston=piston, suolson=suolson, radshock=radshock)
def main(payload):
    out = []
    for c in payload:
        try:
            with warnings.catch_warnings():
                warnings.simplefilter('ignore')
                out.append(KIND[c['kind']](c))
        except Exception as ex:
            import traceback
            out.append({'error': type(ex).__name__ + ': ' + str(ex)[:300], 'tb': traceback.format_exc()[-600:]})
    return out
'''


def r4(rng, lo, hi):
    return float('%.4g' % rng.uniform(lo, hi))


def riemann_params(rng):
    import riemann_corr as RC
    P = RC.sample_problem(rng)
    P['xmin'], P['xmax'] = P['xd0'] - 3.0, P['xd0'] + 3.0
    return P


def threshold_problem(rng):
    """ideal-gas problems whose right velocity lies just on either side of one of the thresholds of the wave-pattern chain
    (Gottlieb & Groth): u_SCN / u_NCR for pl <= pr, u_NCS / u_RCN for pl > pr.  Thresholds are computed here from the
    textbook formulas, not from the code under test."""
    import math
    P = riemann_params(rng)
    while abs(P['gl'] - P['gr']) < 0.15:
        P['gr'] = r4(rng, 1.2, 2.2)
    P['pl'], P['pr'] = r4(rng, 0.5, 4), r4(rng, 0.5, 4)
    pl, rl, ul, gl, pr, rr, gr = (P[k] for k in ('pl', 'rl', 'ul', 'gl', 'pr', 'rr', 'gr'))
    al, ar = math.sqrt(gl * pl / rl), math.sqrt(gr * pr / rr)
    def shock(px, p, r, g):
        return (px - p) * math.sqrt(2 / (g + 1) / r / (px + (g - 1) / (g + 1) * p))
    def raref(px, p, r, g):
        return 2 * math.sqrt(g * p / r) / (g - 1) * (1 - (px / p) ** ((g - 1) / 2 / g))
    if pl <= pr:
        th = [ul - shock(pr, pl, rl, gl), ul + raref(pl, pr, rr, gr)]
    else:
        th = [ul - shock(pl, pr, rr, gr), ul + raref(pr, pl, rl, gl)]
    vac = ul + 2 * al / (gl - 1) + 2 * ar / (gr - 1)
    k = rng.randrange(2)
    width = abs(th[1] - th[0]) + 0.2
    ur = th[k] + rng.choice([-1, 1]) * rng.uniform(0.01, 0.45) * width
    P['ur'] = float('%.6g' % min(ur, vac - 0.05 * abs(vac - th[1])))
    return P


def cases(rng, n, kinds=None):
    out = []
    for _ in range(n):
        g = rng.choice([1, 2, 3])
        out.append({'kind': 'noh', 'params': {'geometry': g, 'gamma': r4(rng, 1.1, 3.0), 'rho0': r4(rng, 0.3, 3), 'u0': -r4(rng, 0.2, 3)}, 't': r4(rng, 0.1, 2)})
        g = rng.choice([1, 2, 3])
        om = 0.0 if rng.random() < 0.4 else r4(rng, 0.0, 0.95 * g)
        out.append({'kind': 'sedov', 'params': {'geometry': g, 'gamma': r4(rng, 1.2, 2.2), 'rho0': r4(rng, 0.3, 3), 'eblast': r4(rng, 0.3, 2), 'omega': om},
                    't': r4(rng, 0.2, 1.5), 'rmax': 3.0})
        # small shock radius with a steep ambient profile: r2^(2 omega) far below (gamma-1)/(gamma+1), where a wrong power of r2 in the
        # post-shock density turns the compression into a density drop
        g = rng.choice([1, 2, 3])
        out.append({'kind': 'sedov', 'params': {'geometry': g, 'gamma': r4(rng, 1.2, 2.2), 'rho0': r4(rng, 0.3, 3), 'eblast': r4(rng, 0.05, 0.5),
                                                'omega': r4(rng, 0.5, 0.9) * g}, 't': r4(rng, 0.01, 0.08), 'rmax': 0.6})
        for cls in ('IGEOS_Solver', 'GenEOS_Solver'):
            if cls == 'GenEOS_Solver' and rng.random() < 0.5:
                continue
            out.append({'kind': 'riemann', 'class': cls, 'params': riemann_params(rng), 't': r4(rng, 0.05, 0.3)})
        # identical thermodynamic states on the two sides, opposite velocities (colliding / separating streams): the two waves can then be told
        # apart by the velocity alone
        for cls in ('IGEOS_Solver', 'GenEOS_Solver'):
            P = riemann_params(rng)
            v = r4(rng, 0.3, 1.2)
            for sgn in (1.0, -0.4):                     # colliding (two shocks) and separating (two fans)
                Q = dict(P); Q.update({'rr': P['rl'], 'pr': P['pl'], 'gr': P['gl'], 'ul': sgn * v, 'ur': -sgn * v})
                out.append({'kind': 'riemann', 'class': cls, 'params': Q, 't': r4(rng, 0.05, 0.3), 'symmetric': True})
        for _k in range(3):
            out.append({'kind': 'riemann', 'class': 'IGEOS_Solver', 'params': threshold_problem(rng), 't': r4(rng, 0.05, 0.2), 'near_threshold': True})
        D = r4(rng, 0.3, 2)
        out.append({'kind': 'ehep', 'params': {'D': D, 'rho_0': r4(rng, 0.5, 3), 'up': r4(rng, 0.0, 0.2) * D, 'xtilde': r4(rng, 0.5, 1.5), 'xmax': 10.0, 'tmax': 10.0},
                    't': r4(rng, 0.3, 3)})
        # Mader: the grid spacing decides which cell straddles the tail of the Taylor wave and by how much -> several spacings
        gam = r4(rng, 2.0, 3.5)
        d = r4(rng, 0.3, 1.5)
        for n_ in (rng.choice([97, 201, 333]), rng.choice([500, 1001, 2117])):
            out.append({'kind': 'mader', 'params': {'p_cj': r4(rng, 0.1, 1), 'd_cj': d, 'gamma': gam, 'u_piston': rng.choice([0.0, 0.0, r4(rng, 0.0, 0.15) * d])},
                        't': r4(rng, 3, 8), 'n': n_})
        out.append({'kind': 'sdrz', 'params': {'D': r4(rng, 0.5, 1.2), 'rho_0': r4(rng, 1.0, 2.0), 'gamma': r4(rng, 2.5, 3.5)}, 't': r4(rng, 0.5, 3.0)})
        out.append({'kind': 'piston', 'params': {}, 't': r4(rng, 0.2e-6, 2e-6)})
        out.append({'kind': 'guderley', 'params': {'geometry': rng.choice([2, 3]), 'gamma': rng.choice([1.4, 5.0 / 3.0, 2.0, 3.0]), 'rho0': r4(rng, 0.5, 2)},
                    't': rng.choice([-1.0, -0.5, 0.5, 1.0])})
    out.append({'kind': 'suolson', 'params': {}, 'xs': [0.1, 0.5, 1.0, 2.0, 4.0], 'times': [1e-10, 1e-9]})
    out.append({'kind': 'suolson', 'params': {'trad_bc_ev': r4(rng, 300, 3000), 'opac': r4(rng, 0.3, 3), 'alpha': r4(rng, 1, 40)}, 'xs': [0.05, 0.3, 1.0, 3.0],
                'times': [r4(rng, 1e-11, 1e-10), r4(rng, 2e-10, 2e-9)]})
    return [c for c in out if kinds is None or c['kind'] in kinds]


def oracle(rng, tier, reasons, kinds=None, skip_geneos=False):
    # a broken obligation (reasons given) widens the search
    cs = cases(rng, (1 if tier == 'quick' else 8) * (6 if reasons else 1), kinds)
    if skip_geneos:
        cs = [c for c in cs if c.get('class') != 'GenEOS_Solver']
    res = H.run_real(SCRIPT, cs, timeout=3000)
    fails = []
    for c, r in zip(cs, res):
        if 'error' in r:
            continue
        if r:
            fails.append({'solver': c.get('class', c['kind']), 'input': c, 'violations': r,
                          'why': 'returned fields are not admissible (sign / compressive shock / monotone fan / between-ness)'})
    return fails


if __name__ == '__main__':
    import random, sys, json
    seed = int(sys.argv[1]) if len(sys.argv) > 1 else 0
    kinds = sys.argv[2].split(',') if len(sys.argv) > 2 else None
    cs = cases(random.Random(seed), 2, kinds)
    for c, r in zip(cs, H.run_real(SCRIPT, cs, timeout=3000)):
        print(c['kind'], c.get('class', ''), json.dumps(r)[:600])
