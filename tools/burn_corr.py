#!/usr/bin/env python3
"""Correspondence (model vs real code) and oracle for the burn-time solvers (C13, also C09/C07 facts)."""
import math
import os
from fractions import Fraction
import harness as H
from harness import qlit
from py2coq import coq_num

def k3_sliver_points(rng, R, xd, n=2, on_lod=False):
    """points in the shadow of the obstacle that hug it just behind the tangent circle: farther from the detonator than the tangent length
    sqrt(d^2 - R^2) but nearer than the obstacle centre (d) - where 'nearer than the centre' is NOT enough to be in line of sight.
    With on_lod the points lie on the sphere |p - x_d| = d (pairs straddling it are built by the caller)."""
    import math
    d = math.sqrt(sum(v * v for v in xd))
    u = [v / d for v in xd]
    # a unit vector perpendicular to u
    if len(xd) == 2:
        w0 = [-u[1], u[0]]
    out = []
    th_t, th_c = math.acos(R / d), math.acos(R / (2 * d))
    for _ in range(n):
        if len(xd) == 2:
            sg = rng.choice([-1, 1])
            w = [c * sg for c in w0]
        else:
            while True:
                q = [rng.uniform(-1, 1) for _ in range(3)]
                dot = sum(a * b for a, b in zip(q, u))
                q = [a - dot * b for a, b in zip(q, u)]
                nq = math.sqrt(sum(a * a for a in q))
                if nq > 0.2:
                    w = [a / nq for a in q]; break
        rho = R * (1 + rng.uniform(0.002, 0.03))
        if on_lod:
            cphi = rho / (2 * d)                       # |p - x_d| = d  <=>  rho^2 = 2 d rho cos(phi)
            phi = math.acos(cphi)
        else:
            phi = th_t + (th_c - th_t) * rng.uniform(0.25, 0.9)
        out.append([round(rho * (math.cos(phi) * a + math.sin(phi) * b), 6) for a, b in zip(u, w)])
    return out


REAL = r'''
import importlib

def main(payload):
    out = []
    for c in payload:
        try:
            cls = getattr(importlib.import_module(c['module']), c['class'])
            s = cls(**c['params'])
            sol = s(np.array(c['pts'], dtype=float), 0.0)
            out.append([float(v) for v in sol['burntime']])
        except Exception as ex:
            out.append({'error': type(ex).__name__ + ': ' + str(ex)[:200]})
    return out
'''
K = 'exactpack.solvers.kenamond.'

HEADER = """From Coq Require Import Reals Lra.
From Interval Require Import Tactic.
From EP Require Import lib.Base lib.Corr lib.Euclid model.Burn.
Open Scope R_scope.
Ltac burn_unfold := unfold k1_bt2, k1_bt3, k2_bt2, k2_bt3, k2_core, k3_bt2, k3_bt3, k3_theta, k3_theta3, dsd_bt, dsd_leg, norm2, norm3; unfold acos, Rsqr.
"""


def sample(rng):
    cases = []
    # Kenamond 1, 2-D and 3-D
    D = round(rng.uniform(0.5, 3), 4); xd = [round(rng.uniform(-2, 2), 4) for _ in range(3)]; td = round(rng.uniform(-1, 2), 4)
    p2 = [[round(rng.uniform(-5, 5), 4), round(rng.uniform(-5, 5), 4)] for _ in range(4)]
    cases.append(dict(module=K + 'kenamond1', cls='Kenamond1', params={'geometry': 2, 'D': D, 'x_d': xd[:2], 't_d': td}, pts=p2,
                      coq=lambda p, D=D, xd=xd, td=td: 'k1_bt2 %s %s %s %s %s %s' % tuple(qlit(v) for v in (D, xd[0], xd[1], td, p[0], p[1]))))
    p3 = [[round(rng.uniform(-5, 5), 4) for _ in range(3)] for _ in range(4)]
    cases.append(dict(module=K + 'kenamond1', cls='Kenamond1', params={'geometry': 3, 'D': D, 'x_d': xd, 't_d': td}, pts=p3,
                      coq=lambda p, D=D, xd=xd, td=td: 'k1_bt3 %s %s %s %s %s %s %s %s' % tuple(qlit(v) for v in (D, xd[0], xd[1], xd[2], td, p[0], p[1], p[2]))))
    # Kenamond 2
    R_ = round(rng.uniform(1, 4), 4); D2 = round(rng.uniform(0.5, 1.5), 4); D1 = round(D2 * rng.uniform(1.0, 3.0), 4)
    d = [round(R_ * rng.uniform(1.5, 4), 4), round(R_ * rng.uniform(1.1, 1.5), 4), -round(R_ * rng.uniform(1.1, 1.5), 4), -round(R_ * rng.uniform(1.5, 4), 4)]
    t3 = round(rng.uniform(-1, 1), 4)
    tmin = [t3 + R_ * (1 / D1 + 1 / D2) - abs(x) / D2 for x in d]
    ts = [round(tm + rng.uniform(0.0, 1.5), 4) for tm in tmin]
    td5 = [ts[0], ts[1], t3, ts[2], ts[3]]
    pk = [[round(rng.uniform(-1.5, 1.5) * d[0], 4), round(rng.uniform(-1.2, 1.2) * d[0], 4)] for _ in range(5)]
    pk.append([round(rng.choice([-1, 1]) * rng.uniform(0.75, 0.95) * R_, 4), round(rng.choice([-1, 1]) * rng.uniform(0.75, 0.95) * R_, 4)])   # inside the bounding square of the inner explosive, outside the disc
    cases.append(dict(module=K + 'kenamond2', cls='Kenamond2', params={'geometry': 2, 'R': R_, 'D1': D1, 'D2': D2, 'dets': d, 't_d': td5}, pts=pk,
                      coq=lambda p, a=(R_, D1, D2, d[0], d[1], d[2], d[3], td5[0], td5[1], td5[2], td5[3], td5[4]): 'k2_bt2 %s %s %s' % (' '.join(qlit(v) for v in a), qlit(p[0]), qlit(p[1]))))
    pk3 = [[round(rng.uniform(-1.2, 1.2) * d[0], 4) for _ in range(3)] for _ in range(3)]
    pk3.append([round(rng.choice([-1, 1]) * rng.uniform(0.7, 0.95) * R_, 4) for _ in range(3)])   # inside the bounding cube, outside the sphere
    cases.append(dict(module=K + 'kenamond2', cls='Kenamond2', params={'geometry': 3, 'R': R_, 'D1': D1, 'D2': D2, 'dets': d, 't_d': td5}, pts=pk3,
                      coq=lambda p, a=(R_, D1, D2, d[0], d[1], d[2], d[3], td5[0], td5[1], td5[2], td5[3], td5[4]): 'k2_bt3 %s %s %s %s' % (' '.join(qlit(v) for v in a), qlit(p[0]), qlit(p[1]), qlit(p[2]))))
    # Kenamond 3 (inert obstacle): 2-D and 3-D, detonator anywhere outside the obstacle, points in line of sight and in the shadow
    for geo in (2, 3):
        R3 = round(rng.uniform(1, 3), 4); D3 = round(rng.uniform(0.5, 2), 4); td3 = round(rng.uniform(-1, 1), 4)
        while True:
            xd3 = [round(rng.uniform(-4, 4) * R3, 4) for _ in range(geo)]
            if 1.3 * R3 < math.sqrt(sum(v * v for v in xd3)):
                break
        p3 = []
        while len(p3) < 3:
            q = [round(rng.uniform(-4, 4) * R3, 4) for _ in range(geo)]
            if math.sqrt(sum(v * v for v in q)) > 1.1 * R3:
                p3.append(q)
        # one point straight behind the obstacle (deep shadow)
        nd = math.sqrt(sum(v * v for v in xd3))
        p3.append([round(-v / nd * R3 * rng.uniform(1.2, 3), 4) for v in xd3])
        p3 += k3_sliver_points(rng, R3, xd3, 2)
        fn = 'k3_bt2' if geo == 2 else 'k3_bt3'
        cases.append(dict(module=K + 'kenamond3', cls='Kenamond3', params={'geometry': geo, 'R': R3, 'D': D3, 'x_d': xd3, 't_d': td3}, pts=p3,
                          coq=lambda p, a=(R3, D3) + tuple(xd3) + (td3,), fn=fn: '%s %s %s' % (fn, ' '.join(qlit(v) for v in a), ' '.join(qlit(v) for v in p))))
    # DSD cylindrical expansion
    r1 = round(rng.uniform(0.5, 2), 4); r2 = round(r1 * rng.uniform(1.3, 3), 4)
    DC1, DC2 = round(rng.uniform(0.5, 2), 4), round(rng.uniform(0.5, 2), 4)
    a1 = round(rng.uniform(0, 0.6) * r1 * DC1, 4); a2 = round(rng.uniform(0, 0.6) * r2 * DC2, 4); tdd = round(rng.uniform(-1, 1), 4)
    pd = []
    # one point in each of the three regions in every case: inside the detonator circle (value t_d), in the inner and in the outer explosive
    for rad in (r1 * rng.uniform(0.1, 0.9), r1 + (r2 - r1) * rng.uniform(0.1, 0.9), r2 * rng.uniform(1.1, 1.6)):
        ang = rng.uniform(0, 2 * math.pi)
        pd.append([round(rad * math.cos(ang), 4), round(rad * math.sin(ang), 4)])
    while len(pd) < 6:
        x, y = round(rng.uniform(-1.6, 1.6) * r2, 4), round(rng.uniform(-1.6, 1.6) * r2, 4)
        rr = math.hypot(x, y)
        if min(abs(rr - r1), abs(rr - r2)) > 1e-3:
            pd.append([x, y])
    cases.append(dict(module='exactpack.solvers.dsd.cylexpansion', cls='CylindricalExpansion',
                      params={'r_1': r1, 'r_2': r2, 'D_CJ_1': DC1, 'D_CJ_2': DC2, 'alpha_1': a1, 'alpha_2': a2, 't_d': tdd}, pts=pd,
                      coq=lambda p, a=(r1, r2, DC1, DC2, a1, a2, tdd): 'dsd_bt %s %s %s' % (' '.join(qlit(v) for v in a), qlit(p[0]), qlit(p[1]))))
    return cases


def unit_corr(rng, tier, prop):
    n = 3 if tier == 'quick' else 25
    cases = []
    for _ in range(n):
        cases += sample(rng)
    res = H.run_real(REAL, [{'module': c['module'], 'class': c['cls'], 'params': c['params'], 'pts': c['pts']} for c in cases])
    goals, dis = [], []
    for c, r in zip(cases, res):
        if isinstance(r, dict):
            dis.append({'case': {k: c[k] for k in ('module', 'cls', 'params', 'pts')}, 'real': r, 'why': 'real implementation raised on an input the model admits'})
            continue
        for p, v in zip(c['pts'], r):
            goals.append('Goal Rabs (%s - %s) <= %s.\nProof. burn_unfold. corr_solve. Qed.' % (
                c['coq'](p), qlit(v), coq_num(Fraction(1, 10 ** 9) * (abs(Fraction(v)) + 1))))
    files = []
    os.makedirs(os.path.join(H.COQ, 'cases'), exist_ok=True)
    import glob
    for old in glob.glob(os.path.join(H.COQ, 'cases', '%s_burn_*' % prop)):
        os.remove(old)
    for k in range(0, len(goals), 60):
        fn = os.path.join('cases', '%s_burn_%d.v' % (prop, k // 60))
        with open(os.path.join(H.COQ, fn), 'w') as f:
            f.write(HEADER + '\n'.join(goals[k:k + 60]) + '\n')
        files.append(fn)
    sample_ = {k: cases[2][k] for k in ('module', 'cls', 'params', 'pts')} if cases else None
    return files, len(goals), dis, sample_


ORACLE = r'''
import importlib
def bt(s, pts):
    return np.asarray(s(np.array(pts, dtype=float), 0.0)['burntime'], dtype=float)
def main(payload):
    out = []
    for c in payload:
        try:
            cls = getattr(importlib.import_module(c['module']), c['class'])
            s = cls(**c['params'])
            P = np.array(c['pts'], dtype=float); Q = np.array(c['pts2'], dtype=float)
            a, b = bt(s, P), bt(s, Q)
            dist = np.sqrt(((P - Q) ** 2).sum(axis=1))
            h = c.get('h', 1e-6)
            g2f = np.zeros(len(P)); g2b = np.zeros(len(P)); kink = np.zeros(len(P))
            for ax in range(P.shape[1]):
                E = np.zeros(P.shape[1]); E[ax] = h
                f = (bt(s, P + E) - a) / h; bk = (a - bt(s, P - E)) / h
                g2f += f ** 2; g2b += bk ** 2; kink = np.maximum(kink, np.abs(f - bk))
            grad = {'fwd': [float(v) for v in np.sqrt(g2f)], 'bwd': [float(v) for v in np.sqrt(g2b)], 'kink': [float(v) for v in kink]}
            res = {'grad': grad, 'lipschitz_ratio': [float(v) for v in np.abs(a - b) / (dist / c['Dmin'] + 1e-300)], 'bt': [float(v) for v in a], 'bt2': [float(v) for v in b],
                   'min_bt': float(min(a.min(), b.min()))}
            out.append(res)
        except Exception as ex:
            out.append({'error': type(ex).__name__ + ': ' + str(ex)[:200]})
    return out
'''


def local_speeds(c):
    P = c['params']
    def nrm(p):
        return math.sqrt(sum(a * a for a in p))
    if c['cls'] in ('Kenamond1', 'Kenamond3'):
        return [P['D'] for _ in c['pts']]
    if c['cls'] == 'Kenamond2':
        return [None if abs(nrm(p) - P['R']) < 1e-3 * P['R'] else (P['D1'] if nrm(p) < P['R'] else P['D2']) for p in c['pts']]
    if c['cls'] == 'CylindricalExpansion':
        out = []
        for p in c['pts']:
            r = nrm(p)
            if r < P['r_1'] * 1.001 or abs(r - P['r_2']) < 1e-3 * P['r_2']:
                out.append(None)
            elif r < P['r_2']:
                out.append(P['D_CJ_1'] - P['alpha_1'] / r)
            else:
                out.append(P['D_CJ_2'] - P['alpha_2'] / r)
        return out
    return None


def lower_bounds(c):
    P = c['params']
    def dist(p, q):
        return math.sqrt(sum((a - b) ** 2 for a, b in zip(p, q)))
    if c['cls'] == 'Kenamond1':
        return [P['t_d'] + dist(p, P['x_d']) / P['D'] for p in c['pts']]
    if c['cls'] == 'Kenamond3':
        return [P['t_d'] + dist(p, P['x_d']) / P['D'] for p in c['pts']]
    if c['cls'] == 'Kenamond2':
        geo = P['geometry']
        dets = [[0.0] * (geo - 1) + [d] for d in P['dets'][:2]] + [[0.0] * geo] + [[0.0] * (geo - 1) + [d] for d in P['dets'][2:]]
        Dmax = max(P['D1'], P['D2'])
        return [min(t + dist(p, x) / Dmax for t, x in zip(P['t_d'], dets)) for p in c['pts']]
    return None


def oracle(rng, tier, reasons):
    """first-arrival structure on the real code: |bt(p) - bt(q)| <= |p-q| / D_slowest for nearby pairs (continuity incl.
    interfaces and shadow boundary), never earlier than the earliest detonation"""
    n = 4 if tier == 'quick' else 40
    payload, meta = [], []
    for _ in range(n):
        for c in sample(rng):
            pts = c['pts']
            pts2 = [[x + rng.uniform(-1e-3, 1e-3) for x in p] for p in pts]
            P = c['params']
            if c['cls'] == 'Kenamond1':
                Dmin, tmin = P['D'], P['t_d']
            elif c['cls'] == 'Kenamond2':
                Dmin, tmin = P['D2'], min(P['t_d'])
            elif c['cls'] == 'Kenamond3':
                Dmin, tmin = P['D'], P['t_d']
            else:
                Dmin = min(P['D_CJ_1'] - P['alpha_1'] / P['r_1'], P['D_CJ_2'] - P['alpha_2'] / P['r_2']); tmin = P['t_d']
            if c['cls'] == 'Kenamond2':
                # pairs straddling the interface |x| = R between the two explosives
                geo = P['geometry']
                for _k in range(4):
                    u = [rng.gauss(0, 1) for _ in range(geo)]
                    nu = math.sqrt(sum(v * v for v in u))
                    u = [v / nu for v in u]
                    pts = pts + [[P['R'] * (1 - 1e-6) * v for v in u]]
                    pts2 = pts2 + [[P['R'] * (1 + 1e-6) * v for v in u]]
            payload.append({'module': c['module'], 'class': c['cls'], 'params': P, 'pts': pts, 'pts2': pts2, 'Dmin': Dmin})
            meta.append((dict(c, pts=pts), tmin))
    # Kenamond 3: pairs straddling the shadow boundary and random pairs
    for _ in range(n):
        R_ = round(rng.uniform(1, 4), 4); D = round(rng.uniform(0.5, 2), 4)
        xd = [round(-R_ * rng.uniform(1.5, 4), 4), round(rng.uniform(-0.5, 0.5), 4)]
        pts = []
        while len(pts) < 8:
            x, y = rng.uniform(-4, 4) * R_, rng.uniform(-4, 4) * R_
            if math.hypot(x, y) > 1.05 * R_:
                pts.append([round(x, 4), round(y, 4)])
        pts2 = [[x + rng.uniform(-1e-3, 1e-3) for x in p] for p in pts]
        for q in k3_sliver_points(rng, R_, xd, 3, on_lod=True):
            # a pair on either side of the sphere |p - x_d| = |x_d| (moved along the direction away from the detonator; both stay outside the obstacle)
            dirv = [a - b for a, b in zip(q, xd)]; nd_ = math.sqrt(sum(a * a for a in dirv))
            pts.append([a - 2e-4 * b / nd_ for a, b in zip(q, dirv)]); pts2.append([a + 2e-4 * b / nd_ for a, b in zip(q, dirv)])
        P = {'geometry': 2, 'R': R_, 'D': D, 'x_d': xd, 't_d': 0.3}
        payload.append({'module': K + 'kenamond3', 'class': 'Kenamond3', 'params': P, 'pts': pts, 'pts2': pts2, 'Dmin': D})
        meta.append(({'cls': 'Kenamond3', 'module': K + 'kenamond3', 'params': P, 'pts': pts}, 0.3))
        # 3-D, detonator off every axis
        while True:
            xd3 = [round(rng.uniform(-4, 4) * R_, 4) for _ in range(3)]
            if math.sqrt(sum(v * v for v in xd3)) > 1.3 * R_ and min(abs(v) for v in xd3) > 0.3 * R_:
                break
        pts = []
        while len(pts) < 10:
            q = [rng.uniform(-4, 4) * R_ for _ in range(3)]
            if math.sqrt(sum(v * v for v in q)) > 1.05 * R_:
                pts.append([round(v, 4) for v in q])
        pts2 = [[x + rng.uniform(-1e-3, 1e-3) for x in p] for p in pts]
        for q in k3_sliver_points(rng, R_, xd3, 3, on_lod=True):
            dirv = [a - b for a, b in zip(q, xd3)]; nd_ = math.sqrt(sum(a * a for a in dirv))
            pts.append([a - 2e-4 * b / nd_ for a, b in zip(q, dirv)]); pts2.append([a + 2e-4 * b / nd_ for a, b in zip(q, dirv)])
        P = {'geometry': 3, 'R': R_, 'D': D, 'x_d': xd3, 't_d': 0.3}
        payload.append({'module': K + 'kenamond3', 'class': 'Kenamond3', 'params': P, 'pts': pts, 'pts2': pts2, 'Dmin': D})
        meta.append(({'cls': 'Kenamond3', 'module': K + 'kenamond3', 'params': P, 'pts': pts}, 0.3))
    res = H.run_real(ORACLE, payload)
    fails = []
    for (c, tmin), p, r in zip(meta, payload, res):
        if 'error' in r:
            continue
        worst = max(r['lipschitz_ratio'])
        if worst > 1.0 + 1e-6:
            i = r['lipschitz_ratio'].index(worst)
            fails.append({'solver': c['cls'], 'params': c['params'], 'point': p['pts'][i], 'nearby_point': p['pts2'][i],
                          'burn_times': [r['bt'][i], r['bt2'][i]], 'ratio_to_distance_over_slowest_speed': worst,
                          'why': 'burn time changes faster than a front of the slowest local speed could travel (discontinuity or wrong gradient)'})
        # eikonal: |grad bt| = 1 / (local detonation speed), away from kinks (ridges where two arrival branches meet, interfaces)
        sp = local_speeds(c)
        if sp is not None and 'grad' in r:
            for i, D in enumerate(sp[:len(r['grad']['fwd'])]):
                if D is None:
                    continue
                gf, gb, kk = r['grad']['fwd'][i], r['grad']['bwd'][i], r['grad']['kink'][i]
                if kk * D > 1e-3:
                    continue
                if abs(gf * D - 1) > 1e-3 and abs(gb * D - 1) > 1e-3:
                    fails.append({'solver': c['cls'], 'params': c['params'], 'point': c['pts'][i], 'gradient_magnitude_times_local_speed': [gf * D, gb * D],
                                  'why': 'eikonal equation violated: |grad burntime| is not 1 / (detonation speed of the explosive at that point)'})
                    break
        lb = lower_bounds(c)
        if lb is not None:
            for i, (b0, b) in enumerate(zip(lb, r['bt'])):
                if b < b0 - 1e-9 * (1 + abs(b0)):
                    fails.append({'solver': c['cls'], 'params': c['params'], 'point': c['pts'][i], 'burn_time': b, 'earliest_physically_possible': b0,
                                  'why': 'burn time earlier than a straight path from the nearest detonator at the fastest detonation speed allows'})
                    break
        if r['min_bt'] < tmin - 1e-9:
            fails.append({'solver': c['cls'], 'params': c['params'], 'min_burn_time': r['min_bt'], 'earliest_detonation': tmin,
                          'why': 'burn time earlier than the earliest detonation'})
    return fails


SYM = r"""
import importlib
def bt(s, pts):
    return np.asarray(s(np.array(pts, dtype=float), 0.0)['burntime'], dtype=float)
def main(payload):
    out = []
    for c in payload:
        try:
            cls = getattr(importlib.import_module(c['module']), c['class'])
            a = bt(cls(**c['params']), c['pts']); b = bt(cls(**c['params2']), c['pts2'])
            out.append({'max_diff': float(np.max(np.abs(a - b))), 'a': [float(v) for v in a[:3]], 'b': [float(v) for v in b[:3]]})
        except Exception as ex:
            out.append({'error': type(ex).__name__ + ': ' + str(ex)[:200]})
    return out
"""


def sym_oracle(rng, tier, reasons):
    """rigid symmetries on the real code: rotation about the detonator axis / the origin, reflections"""
    n = 2 if tier == 'quick' else 15
    payload = []
    def rot2(p, a):
        return [p[0] * math.cos(a) - p[1] * math.sin(a), p[0] * math.sin(a) + p[1] * math.cos(a)]
    for _ in range(n):
        for c in sample(rng):
            P = c['params']; a = rng.uniform(0.2, 2.9)
            if c['cls'] == 'Kenamond2':
                R_ = P['R']
                if P['geometry'] == 3:
                    pts = c['pts'] + [[rng.uniform(-1, 1) * R_ * 1.2 for _ in range(3)] for _ in range(12)]
                    pts2 = [rot2(p[:2], a) + [p[2]] for p in pts]                       # rotation about the detonator (z) axis
                    what = 'rotation about the detonator axis'
                else:
                    pts = c['pts'] + [[rng.uniform(-1, 1) * R_ * 1.2 for _ in range(2)] for _ in range(12)]
                    pts2 = [[-p[0], p[1]] for p in pts]; what = 'reflection x -> -x'
                payload.append({'module': c['module'], 'class': c['cls'], 'params': P, 'params2': P, 'pts': pts, 'pts2': pts2, 'what': what})
            elif c['cls'] in ('Kenamond1', 'Kenamond3'):
                g = P['geometry']
                rot = (lambda p: rot2(p[:2], a) + list(p[2:]))
                P2 = dict(P, x_d=rot(P['x_d']))
                if c['cls'] == 'Kenamond1':
                    sh = [rng.uniform(-2, 2) for _ in range(g)]
                    P2 = dict(P, x_d=[u + v for u, v in zip(rot(P['x_d']), sh)])
                    pts2 = [[u + v for u, v in zip(rot(p), sh)] for p in c['pts']]; what = 'rigid motion of detonator and points'
                else:
                    pts2 = [rot(p) for p in c['pts']]; what = 'rotation of detonator and points about the obstacle centre'
                payload.append({'module': c['module'], 'class': c['cls'], 'params': P, 'params2': P2, 'pts': c['pts'], 'pts2': pts2, 'what': what})
            else:
                payload.append({'module': c['module'], 'class': c['cls'], 'params': P, 'params2': P, 'pts': c['pts'], 'pts2': [rot2(p, a) for p in c['pts']], 'what': 'rotation about the axis'})
    res = H.run_real(SYM, payload)
    fails = []
    for p, r in zip(payload, res):
        if 'error' in r:
            continue
        if r['max_diff'] > 1e-9:
            fails.append({'solver': p['class'], 'params': p['params'], 'symmetry': p['what'], 'points': p['pts'][:4], 'image_points': p['pts2'][:4], 'observed': r})
    return fails
