#!/usr/bin/env python3
"""correspondence of gen/Piston.v with the attributes of a real EPpiston object (rho_y and wv_pl taken from the object), and a
jump-condition oracle on the real object for non-default Gruneisen gamma, materials, models and piston speeds"""
import json
import os
from fractions import Fraction
import harness as H
from harness import qlit
from py2coq import coq_num

REAL = r'''
import warnings
from exactpack.solvers.ep_piston import EPpiston
K = ('sdev_y', 'rho_y', 'e_y', 'p_y', 'wv_el', 'vel_y', 'wv_pl', 'p2', 'rho2', 'e2')
def main(payload):
    out = []
    for c in payload:
        try:
            with warnings.catch_warnings():
                warnings.simplefilter('ignore')
                s = EPpiston(**c['params'])
                o = {k: float(getattr(s, k)) for k in K}
                # public output: one point in each of the three regions
                t = 1.0e-6
                x = np.array([0.5 * s.wv_pl * t, 0.5 * (s.wv_pl + s.wv_el) * t, 1.2 * s.wv_el * t])
                sol = s._run(x, t, xmax=2.0 * s.wv_el * t)
                o['fields'] = {n: [float(v) for v in sol[n]] for n in sol.dtype.names}
                out.append(o)
        except Exception as ex:
            out.append({'error': type(ex).__name__ + ': ' + str(ex)[:200]})
    return out
'''
DEF = {'gamma': 2.0, 'c0': 0.533, 's0': 1.34, 'G': 0.286, 'Y': 0.0026, 'rho0': 2.79, 'up': 0.01}


def sample(rng):
    P = {'gamma': float('%.4g' % rng.uniform(1.2, 2.6)), 'c0': float('%.4g' % rng.uniform(0.3, 0.8)), 's0': float('%.4g' % rng.uniform(1.0, 1.8)),
         'G': float('%.4g' % rng.uniform(0.15, 0.5)), 'Y': float('%.4g' % rng.uniform(0.001, 0.006)), 'rho0': float('%.4g' % rng.uniform(1.5, 8)),
         'up': float('%.4g' % rng.uniform(0.004, 0.03)), 'model': rng.choice(['hypo', 'hyperIfin', 'hyperFin'])}
    return P


def unit_corr(rng, tier, prop):
    js = json.load(open(os.path.join(H.COQ, 'gen', 'Piston.json')))
    cases = [{'params': sample(rng)} for _ in range(4 if tier == 'quick' else 30)]
    res = H.run_real(REAL, cases)
    goals, dis = [], []
    for c, o in zip(cases, res):
        if 'error' in o:
            dis.append({'case': c, 'real': o, 'why': 'real implementation raised'})
            continue
        env = dict(c['params'], rho_y=o['rho_y'], wv_pl=o['wv_pl'])
        for k in ('sdev_y', 'e_y', 'p_y', 'wv_el', 'vel_y', 'p2', 'rho2', 'e2'):
            nm = 'epp_' + k
            args = ' '.join(qlit(env[a]) for a in js[nm]['args'])
            v = o[k]
            tol = Fraction(1, 10 ** 8) * (abs(Fraction(v)) + Fraction(1, 10 ** 9))
            goals.append('Goal Rabs (%s %s - %s) <= %s.\nProof. autounfold with epgen. corr_solve. Qed.' % (nm, args, qlit(v), coq_num(tol)))
        # the returned fields are these attributes region by region (two-wave structure: only when the plastic wave is slower than the precursor;
        # an overdriven piston, wv_pl >= wv_el, is outside the solution's premise and is not guarded by the constructor)
        if not (o['wv_pl'] < o['wv_el']):
            continue
        f = o['fields']
        exp = {'density': [o['rho2'], o['rho_y'], c['params']['rho0']], 'pressure': [o['p2'], o['p_y'], 0.0],
               'specific_internal_energy': [o['e2'], o['e_y'], 0.0], 'velocity': [c['params']['up'], o['vel_y'], 0.0]}
        for n, vals in exp.items():
            if [float(v) for v in f[n]] != [float(v) for v in vals]:
                dis.append({'case': c, 'field': n, 'returned': f[n], 'attributes': vals, 'why': '_run does not return the constructor states region by region'})
    files = H.write_case_files('%s_piston' % prop, 'gen.Piston', goals, per_file=16)
    return files, len(goals), dis, (cases[0] if cases else None)


def oracle(rng, tier, reasons):
    cases = [{'params': sample(rng)} for _ in range((8 if tier == 'quick' else 60) * (2 if reasons else 1))]
    res = H.run_real(REAL, cases)
    fails = []
    for c, o in zip(cases, res):
        if 'error' in o:
            continue
        r0 = c['params']['rho0']; up = c['params']['up']
        def jumps(s, rL, uL, sgL, eL, rR, uR, sgR, eR):
            mL, mR = rL * (uL - s), rR * (uR - s)
            a = [mL - mR, mL * uL + sgL - (mR * uR + sgR), mL * (eL + uL * uL / 2) + sgL * uL - (mR * (eR + uR * uR / 2) + sgR * uR)]
            sc = [abs(mL) + abs(mR), abs(mL * uL) + abs(sgL) + abs(mR * uR) + abs(sgR) + 1e-300,
                  abs(mL) * (abs(eL) + uL * uL / 2) + abs(sgL * uL) + abs(mR) * (abs(eR) + uR * uR / 2) + abs(sgR * uR) + 1e-300]
            return [abs(x) / y for x, y in zip(a, sc)]
        el = jumps(o['wv_el'], o['rho_y'], o['vel_y'], o['p_y'] - o['sdev_y'], o['e_y'], r0, 0.0, 0.0, 0.0)
        pl = jumps(o['wv_pl'], o['rho2'], up, o['p2'] - o['sdev_y'], o['e2'], o['rho_y'], o['vel_y'], o['p_y'] - o['sdev_y'], o['e_y'])
        if max(el + pl) > 1e-9:
            fails.append({'solver': 'EPpiston', 'params': c['params'], 'elastic_precursor_defects(mass,momentum,energy)': el,
                          'plastic_wave_defects(mass,momentum,energy)': pl, 'why': 'jump conditions with total stress p - s_dev violated'})
    return fails
