#!/usr/bin/env python3
"""correspondence of gen/Residuals.v with the real residual classes: F, F_prime (and for the 2x2 classes the determinant and the inverse)
evaluated at random states with a real EOS object; the EOS values the generated expressions take as free variables are read from that object"""
import json
import os
from fractions import Fraction
import harness as H
from harness import qlit
from py2coq import coq_num

REAL = r'''
import warnings
from exactpack.solvers.nohblackboxeos.equations_of_state import eos_library as L
from exactpack.solvers.nohblackboxeos.solution_tools import residual_functions as RF
def main(payload):
    out = []
    for c in payload:
        try:
            with warnings.catch_warnings():
                warnings.simplefilter('ignore')
                eos = {'ideal': lambda: L.ideal_gas_eos(c['g']), 'stiff': lambda: L.stiffened_gas_eos(c['g'], 0.7, 0.9), 'na': lambda: L.noble_abel_eos(c['g'], 0.05)}[c['eos']]()
                r = getattr(RF, c['cls'])(c['ic'], eos)
                st = c['state']
                o = {'F': [float(v) for v in r.F(st)], 'DF': [[float(v) for v in row] for row in r.F_prime(st)], 'e_0': float(r.e_0)}
                rho, y = st[0], st[1]
                if c['cls'].endswith('energy_noh_residual'):
                    o['eos'] = {'eos_e': float(eos.e(rho, y)), 'eos_de_drho': float(eos.de_drho(rho, y)), 'eos_de_dP': float(eos.de_dP(rho, y))}
                else:
                    o['eos'] = {'eos_P': float(eos.P(rho, y)), 'eos_dP_drho': float(eos.dP_drho(rho, y)), 'eos_dP_de': float(eos.dP_de(rho, y))}
                if len(st) == 2:
                    o['det'] = float(r.determinant(st)); o['INV'] = [[float(v) for v in row] for row in r.F_prime_inv(st)]
                out.append(o)
        except Exception as ex:
            out.append({'error': type(ex).__name__ + ': ' + str(ex)[:200]})
    return out
'''
TAG = {'energy_noh_residual': 'en3', 'simplified_energy_noh_residual': 'en2', 'pressure_noh_residual': 'pr3', 'simplified_pressure_noh_residual': 'pr2'}


def unit_corr(rng, tier, prop):
    js = json.load(open(os.path.join(H.COQ, 'gen', 'Residuals.json')))
    n = 2 if tier == 'quick' else 12
    cases = []
    for _ in range(n):
        for cls in TAG:
            dim3 = not cls.startswith('simplified')
            sym = rng.choice([0, 1, 2]) if dim3 else 0          # the simplified (2x2) residuals are documented for symmetry = 0 only
            p0 = round(rng.uniform(0.1, 1.0), 3) if (dim3 and sym == 0 and rng.random() < 0.6) else 0.0
            ic = {'velocity': -round(rng.uniform(0.5, 2), 3), 'density': round(rng.uniform(0.5, 2), 3), 'pressure': p0, 'symmetry': sym}
            st = [round(rng.uniform(2, 6), 3), round(rng.uniform(0.5, 3), 3)] + ([round(rng.uniform(0.2, 1.0), 3)] if dim3 else [])
            cases.append({'cls': cls, 'eos': rng.choice(['ideal', 'stiff', 'na']), 'g': round(rng.uniform(1.2, 2.4), 3), 'ic': ic, 'state': st})
    res = H.run_real(REAL, cases)
    goals, dis = [], []

    def goal(nm, env, v):
        args = ' '.join(qlit(env[a]) for a in js[nm]['args'])
        tol = Fraction(1, 10 ** 9) * abs(Fraction(v)) + Fraction(1, 10 ** 12)
        goals.append('Goal Rabs (%s %s - %s) <= %s.\nProof. autounfold with epgen. corr_solve. Qed.' % (nm, args, qlit(v), coq_num(tol)))
    for c, o in zip(cases, res):
        if 'error' in o:
            dis.append({'case': c, 'real': o, 'why': 'real implementation raised'})
            continue
        tag = TAG[c['cls']]
        st = c['state']
        env = {'rho': st[0], 'P': st[1], 'e': st[1], 'D': st[2] if len(st) == 3 else 1.0, 'u_0': c['ic']['velocity'], 'rho_0': c['ic']['density'],
               'P_0': c['ic']['pressure'], 'symmetry': float(c['ic']['symmetry']), 'e_0': o['e_0']}
        env.update(o['eos'])
        dim = len(st)
        for i in range(dim):
            goal('res_%s_F%d' % (tag, i), env, o['F'][i])
            for j in range(dim):
                goal('res_%s_DF%d%d' % (tag, i, j), env, o['DF'][i][j])
        if dim == 2:
            goal('res_%s_det' % tag, env, o['det'])
            # the returned inverse is the adjugate entries times 1/det
            for i in range(2):
                for j in range(2):
                    nm = 'res_%s_ADJ%d%d' % (tag, i, j)
                    args = ' '.join(qlit(env[a]) for a in js[nm]['args'])
                    v = o['INV'][i][j]
                    tol = Fraction(1, 10 ** 8) * abs(Fraction(v)) + Fraction(1, 10 ** 12)
                    goals.append('Goal Rabs (1 / %s * %s %s - %s) <= %s.\nProof. autounfold with epgen. corr_solve. Qed.' % (qlit(o['det']), nm, args, qlit(v), coq_num(tol)))
    files = H.write_case_files('%s_residuals' % prop, 'gen.Residuals', goals, per_file=30)
    return files, len(goals), dis, (cases[0] if cases else None)
