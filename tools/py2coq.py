#!/usr/bin/env python3
"""py2coq -- fail-closed symbolic translator from the closed-form parts of
ExactPack (Python/NumPy source text) to Coq definitions over R.

The translator is a small symbolic interpreter over the Python `ast`:
it executes a function body with symbolic values for the point `r`, the time
`t` and every `self.<param>` / `inst.<attr>` read, inlines all local
assignments and helper calls, and returns one closed expression tree per
returned field.  Anything outside the accepted subset raises Unsupported with
file/line information; nothing is guessed.

Expression IR (nested tuples):
  ('num', Fraction) ('var', name) ('pi',) ('nan',)
  ('add',a,b) ('sub',a,b) ('mul',a,b) ('div',a,b) ('neg',a)
  ('powi',a,int) ('rpow',a,b) ('fn',name,a)    name in FUNS
  ('min',a,b) ('max',a,b) ('abs',a)
  ('if',cond,a,b) ('sum', var, lo, hi, body)   (sum over integer var in [lo,hi))
Conditions:
  ('lt',a,b) ('le',a,b) ('gt',a,b) ('ge',a,b) ('eq',a,b) ('ne',a,b)
  ('and',c,d) ('or',c,d) ('not',c) ('true',) ('false',)
"""
import ast
import copy
import math
import os
import sys
from fractions import Fraction

FUNS = {'sqrt': 'sqrt', 'exp': 'exp', 'log': 'ln', 'sin': 'sin', 'cos': 'cos',
        'tan': 'tan', 'arctan': 'atan', 'atan': 'atan', 'arccos': 'acos', 'acos': 'acos',
        'arcsin': 'asin', 'asin': 'asin', 'sinh': 'sinh', 'cosh': 'cosh', 'tanh': 'tanh'}
NP_MODS = {'np', 'numpy', 'math', 'ma', 'sp', 'scipy'}


class Unsupported(Exception):
    pass


class Raised(Exception):
    """Control flow: the symbolic path executed a `raise`."""

    def __init__(self, exc):
        self.exc = exc


# ---------------------------------------------------------------- IR helpers
def num(x):
    if isinstance(x, bool):
        raise Unsupported('bool as number')
    if isinstance(x, int):
        return ('num', Fraction(x))
    if isinstance(x, float):
        if x != x or x in (float('inf'), float('-inf')):
            return ('nan',)
        # a literal that is Euler's number to double precision is read as e (cog3: ee = 2.718281828459045)
        if abs(x - math.e) < 1e-15:
            return ('fn', 'exp', ('num', Fraction(1)))
        # decimal reading of the literal (the mathematical intention)
        return ('num', Fraction(repr(x)))
    if isinstance(x, Fraction):
        return ('num', x)
    raise Unsupported('numeric literal %r' % (x,))


def is_expr(v):
    return isinstance(v, tuple) and len(v) > 0 and isinstance(v[0], str) and v[0] in EXPR_TAGS


EXPR_TAGS = {'num', 'var', 'pi', 'nan', 'add', 'sub', 'mul', 'div', 'neg', 'powi', 'rpow', 'fn',
             'min', 'max', 'abs', 'if', 'sum'}
COND_TAGS = {'lt', 'le', 'gt', 'ge', 'eq', 'ne', 'and', 'or', 'not', 'true', 'false'}


def is_cond(v):
    return isinstance(v, tuple) and len(v) > 0 and isinstance(v[0], str) and v[0] in COND_TAGS


def isnum(e):
    return e[0] == 'num'


def mk(op, a, b):
    """Smart constructors doing only exact, meaning-preserving folding."""
    if a[0] == 'nan' or b[0] == 'nan':
        return ('nan',)
    if isnum(a) and isnum(b):
        x, y = a[1], b[1]
        if op == 'add':
            return ('num', x + y)
        if op == 'sub':
            return ('num', x - y)
        if op == 'mul':
            return ('num', x * y)
        if op == 'div' and y != 0:
            return ('num', x / y)
    if op == 'mul':
        if isnum(a) and a[1] == 1:
            return b
        if isnum(b) and b[1] == 1:
            return a
    if op == 'div' and isnum(b) and b[1] == 1:
        return a
    if op == 'add':
        if isnum(a) and a[1] == 0:
            return b
        if isnum(b) and b[1] == 0:
            return a
    if op == 'sub' and isnum(b) and b[1] == 0:
        return a
    # distribute arithmetic over a data `if` only when the other side is if-free:
    # keeps `where(c,a,b) * k` readable; semantics unchanged
    return (op, a, b)


def mkneg(a):
    if a[0] == 'nan':
        return a
    if isnum(a):
        return ('num', -a[1])
    return ('neg', a)


def mkpow(a, b):
    if a[0] == 'nan' or b[0] == 'nan':
        return ('nan',)
    if isnum(b) and b[1].denominator == 1 and abs(b[1]) <= 64:
        n = int(b[1])
        if isnum(a) and (n >= 0 or a[1] != 0):
            return ('num', a[1] ** n)
        if n == 1:
            return a
        return ('powi', a, n)
    if isnum(b) and b[1] == Fraction(1, 2):
        return ('fn', 'sqrt', a)
    if isnum(a) and a[1] == -1:
        return ('fn', 'altsign', b)            # (-1)**k for an integer-valued k (loop index arithmetic)
    return ('rpow', a, b)


def mkif(c, a, b):
    if c[0] == 'true':
        return a
    if c[0] == 'false':
        return b
    if a == b:
        return a
    return ('if', c, a, b)


def cmp_fold(op, a, b):
    if a == b and op in ('eq', 'le', 'ge'):
        return ('true',)
    if a == b and op in ('ne', 'lt', 'gt'):
        return ('false',)
    if isnum(a) and isnum(b):
        x, y = a[1], b[1]
        r = {'lt': x < y, 'le': x <= y, 'gt': x > y, 'ge': x >= y, 'eq': x == y, 'ne': x != y}[op]
        return ('true',) if r else ('false',)
    return (op, a, b)


def cnot(c):
    if c[0] == 'true':
        return ('false',)
    if c[0] == 'false':
        return ('true',)
    if c[0] == 'not':
        return c[1]
    return ('not', c)


def cand(a, b):
    if a[0] == 'false' or b[0] == 'false':
        return ('false',)
    if a[0] == 'true':
        return b
    if b[0] == 'true':
        return a
    if a == b:
        return a
    return ('and', a, b)


def cor(a, b):
    if a[0] == 'true' or b[0] == 'true':
        return ('true',)
    if a[0] == 'false':
        return b
    if b[0] == 'false':
        return a
    if a == b or (a[0] == 'or' and b in (a[1], a[2])):
        return a
    return ('or', a, b)


# ---------------------------------------------------------------- values
class Obj:
    """A symbolic object with attributes (self / inst). Unknown attribute reads
    become free variables named <prefix><attr> and are recorded."""

    def __init__(self, prefix='', attrs=None, frozen=False, name='self'):
        self.prefix = prefix
        self.attrs = dict(attrs or {})
        self.reads = []
        self.frozen = frozen   # frozen: unknown attribute read is an error
        self.name = name

    def get(self, attr):
        if attr in self.attrs:
            return self.attrs[attr]
        if self.frozen:
            raise Unsupported('read of unknown attribute %s.%s' % (self.name, attr))
        v = ('var', self.prefix + attr)
        if attr not in self.reads:
            self.reads.append(attr)
        return v


class Solution:
    """value of ExactSolution(...): ordered named columns; attribute access by field name"""

    def __init__(self, data, names):
        self.data = list(data)
        self.names = list(names)


class Arr:
    """placeholder for np.empty(...) arrays awaiting `[:] = value`"""
    pass


class Shape:
    pass


class Func:
    def __init__(self, node, module):
        self.node = node
        self.module = module


class Module:
    def __init__(self, path):
        self.path = path
        with open(path) as f:
            self.src = f.read()
        self.tree = ast.parse(self.src, filename=path)
        self.funcs = {}
        self.classes = {}
        self.consts = {}
        for n in self.tree.body:
            if isinstance(n, ast.FunctionDef):
                self.funcs[n.name] = n
            elif isinstance(n, ast.ClassDef):
                self.classes[n.name] = n


# ---------------------------------------------------------------- interpreter
class Interp:
    def __init__(self, module, helpers=None, max_unroll=64):
        self.module = module
        self.helpers = helpers if helpers is not None else {}    # name -> python callable(interp, args, kwargs) or Func
        self.max_unroll = max_unroll
        self.raises = []                # (path condition, exception name, message)
        self.partial = []               # (path condition, condition needed for the operation to be defined, line, number of raise paths recorded before): divisions, pow(x, 0.5)
        self.path = ('true',)
        self.depth = 0
        self.keep = set()       # local names kept as named intermediate quantities instead of being inlined
        self.kept = {}

    def err(self, node, msg):
        raise Unsupported('%s:%s: %s' % (self.module.path, getattr(node, 'lineno', '?'), msg))

    # ---- expressions
    def ev(self, n, env):
        m = getattr(self, 'ev_' + type(n).__name__, None)
        if m is None:
            self.err(n, 'expression %s' % type(n).__name__)
        return m(n, env)

    def ev_Constant(self, n, env):
        v = n.value
        if isinstance(v, bool) or v is None or isinstance(v, str):
            return v
        return num(v)

    def ev_JoinedStr(self, n, env):
        return '<str>'                # f-string: message building only

    def ev_Name(self, n, env):
        if n.id in env:
            return env[n.id]
        if n.id in ('True', 'False', 'None'):
            return {'True': True, 'False': False, 'None': None}[n.id]
        if n.id in self.module.consts:
            return self.module.consts[n.id]
        if n.id in ('pi',):
            return ('pi',)
        if n.id in NP_MODS:
            return ('mod', n.id)
        if n.id in self.module.funcs or n.id in self.helpers or n.id in BUILTIN_CALLS or n.id in FUNS:
            return ('fref', n.id)
        self.err(n, 'unbound name %s' % n.id)

    def ev_Attribute(self, n, env):
        base = self.ev(n.value, env)
        if isinstance(base, Obj):
            return base.get(n.attr)
        if isinstance(base, Solution):
            if n.attr in base.names:
                return base.data[base.names.index(n.attr)]
            self.err(n, 'solution has no field %s' % n.attr)
        if isinstance(base, tuple) and base and base[0] == 'mod':
            if n.attr == 'pi':
                return ('pi',)
            if n.attr == 'nan':
                return ('nan',)
            if n.attr == 'inf':
                self.err(n, 'infinity')
            return ('fref', n.attr)
        if n.attr in ('shape', 'size'):
            return Shape()
        if isinstance(base, dict) and n.attr in base:
            return base[n.attr]
        self.err(n, 'attribute .%s of %r' % (n.attr, type(base).__name__))

    def ev_UnaryOp(self, n, env):
        v = self.ev(n.operand, env)
        if isinstance(n.op, ast.USub):
            return mkneg(self.want_expr(v, n))
        if isinstance(n.op, ast.UAdd):
            return self.want_expr(v, n)
        if isinstance(n.op, ast.Not):
            return cnot(self.want_cond(v, n))
        self.err(n, 'unary op')

    def want_expr(self, v, n):
        if is_expr(v):
            return v
        if isinstance(v, bool):
            self.err(n, 'bool used as number')
        if isinstance(v, (int, float, Fraction)):
            return num(v)
        self.err(n, 'expected a number, got %r' % (type(v).__name__,))

    def want_cond(self, v, n):
        if is_cond(v):
            return v
        if isinstance(v, bool):
            return ('true',) if v else ('false',)
        self.err(n, 'expected a condition, got %r' % (v,))

    def ev_BinOp(self, n, env):
        a = self.ev(n.left, env)
        b = self.ev(n.right, env)
        if isinstance(n.op, (ast.BitAnd, ast.BitOr)) and (is_cond(a) or isinstance(a, bool)):
            a, b = self.want_cond(a, n), self.want_cond(b, n)
            return cand(a, b) if isinstance(n.op, ast.BitAnd) else cor(a, b)
        if isinstance(a, str) or isinstance(b, str):
            return '<str>'            # message building (only ever used in raise / warn / print)
        if isinstance(a, (list, tuple)) and not is_expr(a) and isinstance(n.op, ast.Add):
            return list(a) + list(b)
        a, b = self.want_expr(a, n), self.want_expr(b, n)
        if isinstance(n.op, ast.Add):
            return mk('add', a, b)
        if isinstance(n.op, ast.Sub):
            return mk('sub', a, b)
        if isinstance(n.op, ast.Mult):
            return mk('mul', a, b)
        if isinstance(n.op, ast.Div):
            if not (isnum(b) and b[1] != 0):
                self.partial.append((self.path, ('ne', b, num(0)), n.lineno, len(self.raises)))
            return mk('div', a, b)
        if isinstance(n.op, ast.Pow):
            if isnum(b) and b[1].denominator != 1 and not isnum(a):
                self.partial.append((self.path, ('ge', a, num(0)), n.lineno, len(self.raises)))
            return mkpow(a, b)
        self.err(n, 'binary op %s' % type(n.op).__name__)

    def ev_Compare(self, n, env):
        left = self.ev(n.left, env)
        res = ('true',)
        for op, rn in zip(n.ops, n.comparators):
            right = self.ev(rn, env)
            if isinstance(op, (ast.In, ast.NotIn)):
                if isinstance(left, str) and isinstance(right, (str, list, tuple)):
                    c = ('true',) if (left in right) else ('false',)
                else:
                    if not isinstance(right, (list, tuple)):
                        self.err(n, '`in` with non-literal container')
                    c = ('false',)
                    for item in right:
                        c = cor(c, cmp_fold('eq', self.want_expr(left, n), self.want_expr(item, n)))
                if isinstance(op, ast.NotIn):
                    c = cnot(c)
            elif isinstance(left, str) or isinstance(right, str) or left is None or right is None:
                if isinstance(op, (ast.Eq, ast.Is)):
                    c = ('true',) if left == right else ('false',)
                elif isinstance(op, (ast.NotEq, ast.IsNot)):
                    c = ('true',) if left != right else ('false',)
                else:
                    self.err(n, 'string ordering')
            else:
                opn = {ast.Lt: 'lt', ast.LtE: 'le', ast.Gt: 'gt', ast.GtE: 'ge', ast.Eq: 'eq',
                       ast.NotEq: 'ne'}.get(type(op))
                if opn is None:
                    self.err(n, 'comparison %s' % type(op).__name__)
                c = cmp_fold(opn, self.want_expr(left, n), self.want_expr(right, n))
            res = cand(res, c)
            left = right
        return res

    def ev_BoolOp(self, n, env):
        vals = [self.want_cond(self.ev(v, env), n) for v in n.values]
        out = vals[0]
        for v in vals[1:]:
            out = cand(out, v) if isinstance(n.op, ast.And) else cor(out, v)
        return out

    def ev_IfExp(self, n, env):
        c = self.want_cond(self.ev(n.test, env), n)
        if c[0] == 'true':
            return self.ev(n.body, env)
        if c[0] == 'false':
            return self.ev(n.orelse, env)
        a = self.ev(n.body, env)
        b = self.ev(n.orelse, env)
        return self.merge_val(c, a, b, n)

    def ev_Tuple(self, n, env):
        return tuple(self.ev(e, env) for e in n.elts)

    def ev_List(self, n, env):
        return [self.ev(e, env) for e in n.elts]

    def ev_Dict(self, n, env):
        return {self.ev(k, env): self.ev(v, env) for k, v in zip(n.keys, n.values)}

    def ev_Subscript(self, n, env):
        base = self.ev(n.value, env)
        if isinstance(base, (list, tuple)) and not is_expr(base):
            idx = n.slice
            if isinstance(idx, ast.Slice):
                lo = self.const_int(idx.lower, env) if idx.lower else None
                hi = self.const_int(idx.upper, env) if idx.upper else None
                return base[lo:hi]
            i = self.const_int(idx, env)
            return base[i]
        if isinstance(base, dict):
            k = self.ev(n.slice, env)
            if k not in base:
                self.err(n, 'missing dict key %r' % (k,))
            return base[k]
        self.err(n, 'subscript of %s' % type(base).__name__)

    def const_int(self, n, env):
        v = self.ev(n, env)
        if isinstance(v, int):
            return v
        if is_expr(v) and isnum(v) and v[1].denominator == 1:
            return int(v[1])
        self.err(n, 'index is not a constant integer')

    def ev_Call(self, n, env):
        f = n.func
        # method-style calls on values
        if isinstance(f, ast.Attribute) and not (isinstance(f.value, ast.Name) and f.value.id in NP_MODS and f.value.id not in env):
            base = self.ev(f.value, env)
            if isinstance(base, Obj):
                # method on self: look up in class chain via helper
                key = ('method', f.attr)
                if key in self.helpers:
                    return self.helpers[key](self, n, env, base)
                self.err(n, 'method call %s.%s' % (base.name, f.attr))
            if isinstance(base, tuple) and base[:1] == ('super',):
                args = [self.ev(a, env) for a in n.args]
                kwargs = {k.arg: self.ev(k.value, env) for k in n.keywords if k.arg}
                return self.helpers[('supercall',)](self, f.attr, base[1], args, kwargs, n)
            if isinstance(base, list) and f.attr == 'append':
                base.append(self.ev(n.args[0], env))
                return None
            if isinstance(base, tuple) and base and base[0] == 'mod':
                name = f.attr
            else:
                self.err(n, 'method call .%s' % f.attr)
        elif isinstance(f, ast.Attribute):
            name = f.attr
        elif isinstance(f, ast.Name):
            name = f.id
            if name in env and isinstance(env[name], tuple) and env[name][:1] == ('fref',):
                name = env[name][1]
        else:
            self.err(n, 'call target')
        args = [self.ev(a, env) for a in n.args]
        kwargs = {k.arg: self.ev(k.value, env) for k in n.keywords if k.arg}
        return self.call(name, args, kwargs, n)

    def call(self, name, args, kwargs, n):
        if name in self.helpers:
            h = self.helpers[name]
            if isinstance(h, Func):
                return self.call_func(h, args, kwargs, n)
            return h(self, args, kwargs, n)
        if name in self.module.funcs:
            return self.call_func(Func(self.module.funcs[name], self.module), args, kwargs, n)
        if name in FUNS:
            if len(args) != 1:
                self.err(n, '%s arity' % name)
            a = self.want_expr(args[0], n)
            if a[0] == 'nan':
                return a
            return ('fn', FUNS[name], a)
        if name in BUILTIN_CALLS:
            return BUILTIN_CALLS[name](self, args, kwargs, n)
        self.err(n, 'call to unknown function %s' % name)

    def call_func(self, fn, args, kwargs, n):
        node = fn.node
        params = [a.arg for a in node.args.args]
        defaults = node.args.defaults
        env = {}
        sub = self
        if fn.module is not self.module:
            sub = Interp(fn.module, self.helpers, self.max_unroll)
            sub.raises = self.raises
            sub.partial = self.partial
            sub.path = self.path
        for i, p in enumerate(params):
            if i < len(args):
                env[p] = args[i]
            elif p in kwargs:
                env[p] = kwargs[p]
            else:
                j = i - (len(params) - len(defaults))
                if j < 0:
                    self.err(n, 'missing argument %s' % p)
                env[p] = sub.ev(defaults[j], {})
        self.depth += 1
        if self.depth > 40:
            self.err(n, 'recursion too deep')
        try:
            ret = sub.exec_body(node.body, env)
        finally:
            self.depth -= 1
        if ret is NORET:
            return None
        return ret

    # ---- statements: returns NORET or a returned value
    def exec_body(self, body, env):
        for i, st in enumerate(body):
            r = self.exec_stmt(st, env, body[i + 1:])
            if r is not NORET:
                return r
        return NORET

    def exec_stmt(self, st, env, rest):
        if isinstance(st, ast.Expr):
            if isinstance(st.value, ast.Constant):
                return NORET
            if isinstance(st.value, ast.Call):
                f = st.value.func
                nm = f.id if isinstance(f, ast.Name) else (f.attr if isinstance(f, ast.Attribute) else None)
                if nm in ('print', 'warn', 'warning', 'simplefilter', 'filterwarnings'):
                    return NORET
                self.ev(st.value, env)
                return NORET
            self.err(st, 'expression statement')
        if isinstance(st, ast.Assign):
            v = self.ev(st.value, env)
            for tg in st.targets:
                self.assign(tg, v, env)
            return NORET
        if isinstance(st, ast.AugAssign):
            cur = self.ev(self.load_of(st.target), env)
            v = self.ev(st.value, env)
            opn = {ast.Add: 'add', ast.Sub: 'sub', ast.Mult: 'mul', ast.Div: 'div'}.get(type(st.op))
            if isinstance(cur, str) and isinstance(v, str) and opn == 'add':
                self.assign(st.target, '<str>', env)           # message building
                return NORET
            if opn is None:
                self.err(st, 'augmented op')
            self.assign(st.target, mk(opn, self.want_expr(cur, st), self.want_expr(v, st)), env)
            return NORET
        if isinstance(st, ast.Return):
            return self.ev(st.value, env) if st.value is not None else None
        if isinstance(st, ast.Raise):
            exc = 'Exception'
            msg = ''
            if isinstance(st.exc, ast.Call):
                exc = st.exc.func.id if isinstance(st.exc.func, ast.Name) else getattr(st.exc.func, 'attr', 'Exception')
                if st.exc.args and isinstance(st.exc.args[0], ast.Constant):
                    msg = str(st.exc.args[0].value)
            elif isinstance(st.exc, ast.Name):
                exc = st.exc.id
            self.raises.append((self.path, exc, msg, st.lineno))
            raise Raised(exc)
        if isinstance(st, ast.If):
            return self.exec_if(st, env, rest)
        if isinstance(st, ast.For):
            return self.exec_for(st, env)
        if isinstance(st, ast.Pass):
            return NORET
        if isinstance(st, (ast.Import, ast.ImportFrom, ast.Global)):
            return NORET
        if isinstance(st, ast.Assert):
            return NORET
        self.err(st, 'statement %s' % type(st).__name__)

    def load_of(self, tg):
        t2 = copy.deepcopy(tg)
        for nn in ast.walk(t2):
            if hasattr(nn, 'ctx'):
                nn.ctx = ast.Load()
        return t2

    def assign(self, tg, v, env):
        if isinstance(tg, ast.Name) and tg.id in self.keep and is_expr(v) and tg.id not in self.kept:
            self.kept[tg.id] = v
            env[tg.id] = ('var', tg.id)
        elif isinstance(tg, ast.Name):
            env[tg.id] = v
        elif isinstance(tg, (ast.Tuple, ast.List)):
            if not isinstance(v, (list, tuple)) or is_expr(v) or len(v) != len(tg.elts):
                self.err(tg, 'tuple assignment shape')
            for t1, v1 in zip(tg.elts, v):
                self.assign(t1, v1, env)
        elif isinstance(tg, ast.Attribute):
            base = self.ev(tg.value, env)
            if isinstance(base, Obj):
                base.attrs[tg.attr] = v
            elif isinstance(base, Solution) and tg.attr in base.names:
                base.data[base.names.index(tg.attr)] = self.want_expr(v, tg)
            else:
                self.err(tg, 'attribute store')
        elif isinstance(tg, ast.Subscript):
            base = self.ev(tg.value, env)
            if isinstance(base, Arr) and isinstance(tg.slice, ast.Slice) and tg.slice.lower is None and tg.slice.upper is None:
                # arr[:] = value   -> the name(s) bound to arr become that value
                for k in list(env):
                    if env[k] is base:
                        env[k] = self.want_expr(v, tg)
            elif isinstance(base, dict):
                base[self.ev(tg.slice, env)] = v
            elif isinstance(base, list):
                base[self.const_int(tg.slice, env)] = v
            else:
                self.err(tg, 'subscript store (mutation of an array)')
        else:
            self.err(tg, 'assignment target')

    def exec_if(self, st, env, rest):
        c = self.want_cond(self.ev(st.test, env), st)
        if c[0] == 'true':
            return self.exec_body(st.body, env)
        if c[0] == 'false':
            return self.exec_body(st.orelse, env)
        saved = self.path
        env_a = fork_env(env)
        env_b = fork_env(env)
        ra = rb = NORET
        dead_a = dead_b = False
        self.path = cand(saved, c)
        try:
            ra = self.exec_body(st.body, env_a)
        except Raised:
            dead_a = True
        self.path = cand(saved, cnot(c))
        try:
            rb = self.exec_body(st.orelse, env_b)
        except Raised:
            dead_b = True
        self.path = saved
        if dead_a and dead_b:
            raise Raised('both')
        if dead_a:
            replace_env(env, env_b)
            return rb
        if dead_b:
            replace_env(env, env_a)
            return ra
        # a branch that returned: continue the other with the rest, then merge returns
        if ra is not NORET or rb is not NORET:
            if ra is NORET:
                self.path = cand(saved, c)
                try:
                    ra = self.exec_body(rest, env_a)
                finally:
                    self.path = saved
                if ra is NORET:
                    ra = None
            if rb is NORET:
                self.path = cand(saved, cnot(c))
                try:
                    rb = self.exec_body(rest, env_b)
                finally:
                    self.path = saved
                if rb is NORET:
                    rb = None
            return self.merge_val(c, ra, rb, st)
        merged = {}
        for k in set(env_a) | set(env_b):
            if k in env_a and k in env_b:
                merged[k] = self.merge_val(c, env_a[k], env_b[k], st)
            # variables defined in only one branch are dropped (reading them later fails closed)
        replace_env(env, merged)
        return NORET

    def merge_val(self, c, a, b, n):
        if a is b:
            return a
        if isinstance(a, Obj) and isinstance(b, Obj):
            # forked copies of the same object: merge attribute-wise
            out = a
            for k in set(a.attrs) | set(b.attrs):
                if k in a.attrs and k in b.attrs:
                    out.attrs[k] = self.merge_val(c, a.attrs[k], b.attrs[k], n)
                elif k in b.attrs:
                    pass
            for k in list(out.attrs):
                if k not in b.attrs:
                    del out.attrs[k]
            return out
        if is_expr(a) and is_expr(b):
            return mkif(c, a, b)
        if isinstance(a, (int, float)) and not isinstance(a, bool):
            a = num(a)
        if isinstance(b, (int, float)) and not isinstance(b, bool):
            b = num(b)
        if is_expr(a) and is_expr(b):
            return mkif(c, a, b)
        if is_cond(a) or is_cond(b) or isinstance(a, bool) or isinstance(b, bool):
            ca, cb = self.want_cond(a, n), self.want_cond(b, n)
            return cor(cand(c, ca), cand(cnot(c), cb))
        if isinstance(a, (list, tuple)) and isinstance(b, (list, tuple)) and len(a) == len(b):
            return type(a)(self.merge_val(c, x, y, n) for x, y in zip(a, b))
        if isinstance(a, dict) and isinstance(b, dict) and set(a) == set(b):
            return {k: self.merge_val(c, a[k], b[k], n) for k in a}
        if a == b:
            return a
        if a is None and is_expr(b):
            return mkif(c, ('nan',), b)      # a path that falls off the end of a function returns no number
        if b is None and is_expr(a):
            return mkif(c, a, ('nan',))
        if isinstance(a, Arr) and is_expr(b):
            return mkif(c, ('nan',), b)
        if isinstance(b, Arr) and is_expr(a):
            return mkif(c, a, ('nan',))
        return ('unmergeable', c, a, b)

    def exec_for(self, st, env):
        it = st.iter
        seq = None
        if isinstance(it, ast.Call) and isinstance(it.func, ast.Name) and it.func.id == 'range':
            args = [self.ev(a, env) for a in it.args]
            ints = []
            for a in args:
                if isinstance(a, int):
                    ints.append(a)
                elif is_expr(a) and isnum(a) and a[1].denominator == 1:
                    ints.append(int(a[1]))
                else:
                    ints = None
                    break
            if ints is None:
                return self.exec_symbolic_sum(st, env, args)
            seq = [num(i) for i in range(*ints)]
        else:
            v = self.ev(it, env)
            if isinstance(v, (list, tuple)) and not is_expr(v):
                seq = list(v)
            else:
                self.err(st, 'for over non-literal sequence')
        if len(seq) > self.max_unroll:
            self.err(st, 'loop too long to unroll')
        for item in seq:
            self.assign(st.target, item, env)
            r = self.exec_body(st.body, env)
            if r is not NORET:
                return r
        return NORET

    def exec_symbolic_sum(self, st, env, args):
        """for n in range(lo, hi): acc += body(n)  with symbolic hi -> ('sum', var, lo, hi, body).
        Accepted only when every statement of the body is a plain assignment or `acc += e`
        (also `acc = acc + e`), and accumulators are not read otherwise."""
        if not isinstance(st.target, ast.Name):
            self.err(st, 'symbolic loop target')
        var = st.target.id
        if len(args) == 1:
            lo, hi = num(0), self.want_expr(args[0], st)
        elif len(args) == 2:
            lo, hi = self.want_expr(args[0], st), self.want_expr(args[1], st)
        else:
            self.err(st, 'range with step')
        ivar = ('var', '__i_' + var)
        benv = fork_env(env)
        benv[var] = ivar
        accs = {}
        for s in st.body:
            if isinstance(s, ast.AugAssign) and isinstance(s.target, ast.Name) and isinstance(s.op, (ast.Add, ast.Sub)):
                term = self.want_expr(self.ev(s.value, benv), s)
                if isinstance(s.op, ast.Sub):
                    term = mkneg(term)
                accs.setdefault(s.target.id, []).append(term)
            elif isinstance(s, ast.Assign) and len(s.targets) == 1 and isinstance(s.targets[0], ast.Name):
                nm = s.targets[0].id
                # acc = acc + e
                if isinstance(s.value, ast.BinOp) and isinstance(s.value.op, ast.Add) and isinstance(s.value.left, ast.Name) and s.value.left.id == nm and nm in env:
                    term = self.want_expr(self.ev(s.value.right, benv), s)
                    accs.setdefault(nm, []).append(term)
                else:
                    if nm in accs:
                        self.err(s, 'accumulator reassigned in loop')
                    benv[nm] = self.ev(s.value, benv)
            else:
                self.err(s, 'statement in symbolic loop')
        for nm, terms in accs.items():
            if contains_var(terms, nm):
                self.err(st, 'accumulator read inside loop body')
            body = terms[0]
            for tm in terms[1:]:
                body = mk('add', body, tm)
            env[nm] = mk('add', self.want_expr(env[nm], st), ('sum', '__i_' + var, lo, hi, body))
        return NORET


def contains_var(e, name):
    if isinstance(e, (list, tuple)):
        if len(e) == 2 and e[0] == 'var' and e[1] == name:
            return True
        return any(contains_var(x, name) for x in e)
    return False


class _NoRet:
    def __repr__(self):
        return 'NORET'


NORET = _NoRet()


def fork_env(env):
    out = {}
    memo = {}
    for k, v in env.items():
        out[k] = fork_val(v, memo)
    return out


def fork_val(v, memo):
    if isinstance(v, Obj):
        if id(v) not in memo:
            o = Obj(v.prefix, dict(v.attrs), v.frozen, v.name)
            o.reads = v.reads        # shared: record of parameter reads
            o.attrs = {k: fork_val(x, memo) for k, x in v.attrs.items()}
            memo[id(v)] = o
        return memo[id(v)]
    if isinstance(v, list):
        return [fork_val(x, memo) for x in v]
    if isinstance(v, dict):
        return {k: fork_val(x, memo) for k, x in v.items()}
    return v


def replace_env(env, new):
    # keep identity of Obj `self` for the caller: copy attrs back
    for k, v in list(new.items()):
        if k in env and isinstance(env[k], Obj) and isinstance(v, Obj) and env[k] is not v:
            env[k].attrs = v.attrs
            new[k] = env[k]
    env.clear()
    env.update(new)


# ---------------------------------------------------------------- numpy builtins
def _ones(interp, args, kwargs, n):
    return num(1)


def _zeros(interp, args, kwargs, n):
    return num(0)


def _empty(interp, args, kwargs, n):
    return Arr()


def _where(interp, args, kwargs, n):
    if len(args) != 3:
        interp.err(n, 'where arity')
    c = interp.want_cond(args[0], n)
    return mkif(c, interp.want_expr(args[1], n), interp.want_expr(args[2], n))


def _abs(interp, args, kwargs, n):
    a = interp.want_expr(args[0], n)
    if isnum(a):
        return ('num', abs(a[1]))
    return ('abs', a)


def _pow(interp, args, kwargs, n):
    a, b = interp.want_expr(args[0], n), interp.want_expr(args[1], n)
    if isnum(b) and b[1].denominator != 1 and not isnum(a):
        interp.partial.append((interp.path, ('ge', a, num(0)), n.lineno, len(interp.raises)))
    return mkpow(a, b)


def _minmax(tag):
    def f(interp, args, kwargs, n):
        if len(args) == 1 and isinstance(args[0], (list, tuple)) and not is_expr(args[0]):
            args = list(args[0])
        if len(args) < 2:
            interp.err(n, '%s of an array (grid reduction)' % tag)
        out = interp.want_expr(args[0], n)
        for a in args[1:]:
            out = (tag, out, interp.want_expr(a, n))
        return out
    return f


def _len(interp, args, kwargs, n):
    a = args[0]
    if isinstance(a, (list, tuple, dict, str)) and not is_expr(a):
        return len(a)
    return Shape()


def _float(interp, args, kwargs, n):
    return interp.want_expr(args[0], n)


def _square(interp, args, kwargs, n):
    return mkpow(interp.want_expr(args[0], n), num(2))


def _array(interp, args, kwargs, n):
    return args[0]


def _sign(interp, args, kwargs, n):
    a = interp.want_expr(args[0], n)
    return mkif(('lt', a, num(0)), num(-1), mkif(('gt', a, num(0)), num(1), num(0)))


def _logical(tag):
    def f(interp, args, kwargs, n):
        a, b = interp.want_cond(args[0], n), interp.want_cond(args[1], n)
        return cand(a, b) if tag == 'and' else cor(a, b)
    return f


def _dict(interp, args, kwargs, n):
    if args:
        return dict(args[0])
    return dict(kwargs)


def _zip(interp, args, kwargs, n):
    return list(zip(*args))


def _isinstance(interp, args, kwargs, n):
    interp.err(n, 'isinstance')


BUILTIN_CALLS = {
    'ones': _ones, 'zeros': _zeros, 'ones_like': _ones, 'zeros_like': _zeros, 'empty': _empty,
    'empty_like': _empty, 'where': _where, 'abs': _abs, 'fabs': _abs, 'absolute': _abs, 'pow': _pow, 'power': _pow,
    'min': _minmax('min'), 'max': _minmax('max'), 'minimum': _minmax('min'), 'maximum': _minmax('max'),
    'len': _len, 'float': _float, 'square': _square, 'array': _array, 'asarray': _array, 'sign': _sign,
    'logical_and': _logical('and'), 'logical_or': _logical('or'), 'dict': _dict, 'zip': _zip,
    'float64': _float, 'str': (lambda i, a, k, n: '<str>'), 'repr': (lambda i, a, k, n: '<str>'),
}


# ---------------------------------------------------------------- expression utilities
def free_vars(e, acc=None):
    if acc is None:
        acc = []
    if isinstance(e, tuple) and e:
        if e[0] == 'var':
            if e[1] not in acc:
                acc.append(e[1])
        elif e[0] == 'sum':
            inner = []
            free_vars(e[4], inner)
            for v in inner:
                if v != e[1] and v not in acc:
                    acc.append(v)
            free_vars(e[2], acc)
            free_vars(e[3], acc)
        elif e[0] == 'num':
            pass
        else:
            for x in e[1:]:
                free_vars(x, acc)
    return acc


def has_tag(e, tag):
    if isinstance(e, tuple) and e:
        if e[0] == tag:
            return True
        if e[0] == 'num':
            return False
        return any(has_tag(x, tag) for x in e[1:])
    return False


def coq_num(q):
    q = Fraction(q)
    if q.denominator == 1:
        return str(q.numerator) if q >= 0 else '(- %d)' % (-q.numerator)
    if q >= 0:
        return '(%d / %d)' % (q.numerator, q.denominator)
    return '(- (%d / %d))' % (-q.numerator, q.denominator)


def coq_name(v):
    v = v.replace('.', '_')
    if v in COQ_RESERVED:
        return v + '_'
    return v


COQ_RESERVED = {'at', 'as', 'in', 'let', 'if', 'then', 'else', 'fun', 'forall', 'exists', 'Type', 'Set',
                'Prop', 'match', 'with', 'end', 'fix', 'cofix', 'return', 'using', 'where', 'IF', 'mod',
                'sqrt', 'exp', 'ln', 'sin', 'cos', 'tan', 'atan', 'PI', 'Rabs', 'Rmin', 'Rmax', 'Rpower',
                'pow', 'e', 'R', 'S', 'O', 'I', 'nat', 'D', 'N', 'Z', 'Q', 'pi'}


def coq_expr(e):
    t = e[0]
    if t == 'num':
        return coq_num(e[1])
    if t == 'var':
        return coq_name(e[1])
    if t == 'pi':
        return 'PI'
    if t == 'nan':
        raise Unsupported('NaN inside an emitted expression')
    if t in ('add', 'sub', 'mul', 'div'):
        op = {'add': '+', 'sub': '-', 'mul': '*', 'div': '/'}[t]
        return '(%s %s %s)' % (coq_expr(e[1]), op, coq_expr(e[2]))
    if t == 'neg':
        return '(- %s)' % coq_expr(e[1])
    if t == 'powi':
        n = e[2]
        if n >= 0:
            return '(%s ^ %d)' % (coq_expr(e[1]), n)
        return '(/ (%s ^ %d))' % (coq_expr(e[1]), -n)
    if t == 'rpow':
        return '(Rpower %s %s)' % (coq_expr(e[1]), coq_expr(e[2]))
    if t == 'fn':
        return '(%s %s)' % (e[1], coq_expr(e[2]))
    if t == 'abs':
        return '(Rabs %s)' % coq_expr(e[1])
    if t == 'min':
        return '(Rmin %s %s)' % (coq_expr(e[1]), coq_expr(e[2]))
    if t == 'max':
        return '(Rmax %s %s)' % (coq_expr(e[1]), coq_expr(e[2]))
    if t == 'if':
        return coq_if(e[1], coq_expr(e[2]), coq_expr(e[3]))
    if t == 'sum':
        # sum over integer index i in [lo, hi): hi is a real holding a natural number
        return '(sum_range (fun %s : R => %s) %s %s)' % (coq_name(e[1]), coq_expr(e[4]), coq_expr(e[2]), coq_expr(e[3]))
    raise Unsupported('emit %r' % (t,))


def coq_if(c, a, b):
    t = c[0]
    if t == 'true':
        return a
    if t == 'false':
        return b
    if t == 'not':
        return coq_if(c[1], b, a)
    if t == 'and':
        return coq_if(c[1], coq_if(c[2], a, b), b)
    if t == 'or':
        return coq_if(c[1], a, coq_if(c[2], a, b))
    x, y = coq_expr(c[1]), coq_expr(c[2])
    if t == 'lt':
        return '(if Rlt_dec %s %s then %s else %s)' % (x, y, a, b)
    if t == 'le':
        return '(if Rle_dec %s %s then %s else %s)' % (x, y, a, b)
    if t == 'gt':
        return '(if Rlt_dec %s %s then %s else %s)' % (y, x, a, b)
    if t == 'ge':
        return '(if Rle_dec %s %s then %s else %s)' % (y, x, a, b)
    if t == 'eq':
        return '(if Req_EM_T %s %s then %s else %s)' % (x, y, a, b)
    if t == 'ne':
        return '(if Req_EM_T %s %s then %s else %s)' % (x, y, b, a)
    raise Unsupported('emit cond %r' % (t,))


def coq_prop(c):
    t = c[0]
    if t == 'true':
        return 'True'
    if t == 'false':
        return 'False'
    if t == 'not':
        return '(~ %s)' % coq_prop(c[1])
    if t == 'and':
        return '(%s /\\ %s)' % (coq_prop(c[1]), coq_prop(c[2]))
    if t == 'or':
        return '(%s \\/ %s)' % (coq_prop(c[1]), coq_prop(c[2]))
    x, y = coq_expr(c[1]), coq_expr(c[2])
    op = {'lt': '<', 'le': '<=', 'gt': '>', 'ge': '>=', 'eq': '=', 'ne': '<>'}[t]
    return '(%s %s %s)' % (x, op, y)


# ---- numeric evaluation of the IR (used by the harness for self-checks and searches)
def eval_expr(e, env):
    t = e[0]
    if t == 'num':
        return float(e[1])
    if t == 'var':
        return env[e[1]]
    if t == 'pi':
        return math.pi
    if t == 'nan':
        return float('nan')
    if t == 'add':
        return eval_expr(e[1], env) + eval_expr(e[2], env)
    if t == 'sub':
        return eval_expr(e[1], env) - eval_expr(e[2], env)
    if t == 'mul':
        return eval_expr(e[1], env) * eval_expr(e[2], env)
    if t == 'div':
        return eval_expr(e[1], env) / eval_expr(e[2], env)
    if t == 'neg':
        return -eval_expr(e[1], env)
    if t == 'powi':
        return eval_expr(e[1], env) ** e[2]
    if t == 'rpow':
        return eval_expr(e[1], env) ** eval_expr(e[2], env)
    if t == 'fn':
        f = {'sqrt': math.sqrt, 'exp': math.exp, 'ln': math.log, 'sin': math.sin, 'cos': math.cos,
             'tan': math.tan, 'atan': math.atan, 'acos': math.acos, 'asin': math.asin,
             'sinh': math.sinh, 'cosh': math.cosh, 'tanh': math.tanh,
             'altsign': lambda k: (-1.0) ** int(round(k))}[e[1]]
        return f(eval_expr(e[2], env))
    if t == 'abs':
        return abs(eval_expr(e[1], env))
    if t == 'min':
        return min(eval_expr(e[1], env), eval_expr(e[2], env))
    if t == 'max':
        return max(eval_expr(e[1], env), eval_expr(e[2], env))
    if t == 'if':
        return eval_expr(e[2], env) if eval_cond(e[1], env) else eval_expr(e[3], env)
    if t == 'sum':
        lo, hi = int(round(eval_expr(e[2], env))), int(round(eval_expr(e[3], env)))
        s = 0.0
        env2 = dict(env)
        for i in range(lo, hi):
            env2[e[1]] = float(i)
            s += eval_expr(e[4], env2)
        return s
    raise Unsupported('eval %r' % (t,))


def eval_cond(c, env):
    t = c[0]
    if t == 'true':
        return True
    if t == 'false':
        return False
    if t == 'not':
        return not eval_cond(c[1], env)
    if t == 'and':
        return eval_cond(c[1], env) and eval_cond(c[2], env)
    if t == 'or':
        return eval_cond(c[1], env) or eval_cond(c[2], env)
    x, y = eval_expr(c[1], env), eval_expr(c[2], env)
    return {'lt': x < y, 'le': x <= y, 'gt': x > y, 'ge': x >= y, 'eq': x == y, 'ne': x != y}[t]


# ---- definedness conditions (for C20): list of conditions each guarded by a path
def def_conds(e, path=('true',), acc=None):
    """Collect (path, cond) such that the real-number reading of e is the intended one:
    denominators <> 0, sqrt args >= 0, ln args > 0, Rpower bases > 0, acos/asin args in [-1,1]."""
    if acc is None:
        acc = []
    t = e[0]
    if t in ('num', 'var', 'pi', 'nan'):
        return acc
    if t == 'if':
        def_conds_c(e[1], path, acc)
        def_conds(e[2], cand(path, e[1]), acc)
        def_conds(e[3], cand(path, cnot(e[1])), acc)
        return acc
    if t == 'sum':
        # conditions inside sums are universally quantified: not collected (series terms are entire here)
        return acc
    for x in e[1:]:
        if isinstance(x, tuple):
            def_conds(x, path, acc)
    def add(c):
        if c[0] == 'and':
            add(c[1]); add(c[2]); return
        if isnum(c[1]) and isnum(c[2]) and cmp_fold(c[0], c[1], c[2])[0] == 'true':
            return
        if (path, c) not in acc:
            acc.append((path, c))
    if t == 'div':
        add(('ne', e[2], num(0)))
    elif t == 'powi' and e[2] < 0:
        add(('ne', e[1], num(0)))
    elif t == 'rpow':
        add(('gt', e[1], num(0)))
    elif t == 'fn':
        if e[1] == 'sqrt':
            add(('ge', e[2], num(0)))
        elif e[1] == 'ln':
            add(('gt', e[2], num(0)))
        elif e[1] in ('acos', 'asin'):
            add(('and', ('le', num(-1), e[2]), ('le', e[2], num(1))))
    return acc


def def_conds_c(c, path, acc):
    if c[0] in ('and', 'or'):
        def_conds_c(c[1], path, acc)
        def_conds_c(c[2], path, acc)
    elif c[0] == 'not':
        def_conds_c(c[1], path, acc)
    elif c[0] in ('true', 'false'):
        pass
    else:
        def_conds(c[1], path, acc)
        def_conds(c[2], path, acc)
