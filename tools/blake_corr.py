#!/usr/bin/env python3
"""C15: correspondence between the real Blake solver and the generated models (gen/Elastic.v: the fifteen
parameter-pair cases of set_elastic_params; gen/Blake.v: _run), and an oracle on the real code alone."""
import itertools
import json
import math
import os
from fractions import Fraction
import harness as H
import gen as G
from harness import qlit
from py2coq import coq_num, eval_expr, eval_cond

NAMES = ['lame_mod', 'shear_mod', 'youngs_mod', 'poisson_ratio', 'bulk_mod', 'long_mod']
VARS = ['plda', 'pg', 'pe', 'pnu', 'pk', 'pm']

REAL = r'''
import warnings
from exactpack.solvers.blake import Blake
NAMES = ['lame_mod', 'shear_mod', 'youngs_mod', 'poisson_ratio', 'bulk_mod', 'long_mod']
def main(payload):
    out = []
    for c in payload:
        try:
            with warnings.catch_warnings():
                warnings.simplefilter('ignore')
                s = Blake(**c['kwargs'])
        except Exception as ex:
            out.append({'error': type(ex).__name__, 'msg': str(ex)[:160]})
            continue
        r = {'moduli': [float(getattr(s, n)) for n in NAMES]}
        if c.get('radii'):
            try:
                sol = s(np.array(c['radii'], dtype=float), c['t'])
                r['fields'] = {n: [float(v) for v in sol[n]] for n in sol.dtype.names}
            except Exception as ex:
                r['run_error'] = type(ex).__name__ + ': ' + str(ex)[:160]
        out.append(r)
    return out
'''


def moduli(lam, g):
    return [lam, g, g * (3 * lam + 2 * g) / (lam + g), lam / (2 * (lam + g)), lam + 2 * g / 3, lam + 2 * g]


def elastic_json():
    return json.load(open(os.path.join(H.COQ, 'gen', 'Elastic.json')))


def case_of(ej, i, j):
    """prmcase number and given order for parameter indices i < j"""
    for N, c in ej['cases'].items():
        if c['given'] == [NAMES[i], NAMES[j]]:
            return int(N)
    raise KeyError((i, j))


def model_eval(ej, N, g0, g1):
    """float evaluation of the generated model: (accepted, six values or None)"""
    c = ej['cases'][str(N)]
    env = {'g0': g0, 'g1': g1}
    try:
        ok = all(eval_cond(G.expr_from_json(ej['given_ok'][nm]), {'x': v}) for nm, v in zip(c['given'], (g0, g1)))
        ok = ok and eval_cond(G.expr_from_json(c['ok']), env)
    except (ZeroDivisionError, ValueError, OverflowError):
        return None, None
    if not ok:
        return False, None
    try:
        return True, [eval_expr(G.expr_from_json(c['out'][v]), env) for v in VARS]
    except (ZeroDivisionError, ValueError, OverflowError):
        return None, None


def sig(x, n=6):
    return float('%.*g' % (n, x))


def sample_material(rng):
    g = sig(10 ** rng.uniform(8, 11))
    # nu in (-0.9, 0.49), mostly positive
    nu = rng.uniform(0.02, 0.48) if rng.random() < 0.8 else rng.uniform(-0.8, 0.0)
    lam = sig(2 * g * nu / (1 - 2 * nu))
    return lam, g


def sample_cases(rng, n_valid, n_invalid):
    cases = []
    pairs = list(itertools.combinations(range(6), 2))
    for k in range(n_valid):
        lam, g = sample_material(rng)
        m = moduli(lam, g)
        i, j = pairs[k % 15] if k < 15 * (n_valid // 15) else rng.choice(pairs)
        kw = {NAMES[i]: sig(m[i], 9), NAMES[j]: sig(m[j], 9)}
        if rng.random() < 0.5:
            kw = dict(reversed(list(kw.items())))            # order in which the user passes them
        prob = {}
        if rng.random() < 0.7:
            prob = {'ref_density': sig(rng.uniform(1000, 8000), 5), 'cavity_radius': sig(rng.uniform(0.02, 2.0), 4),
                    'pressure_scale': sig(10 ** rng.uniform(3, 6.5), 4)}
        cases.append({'pair': (i, j), 'kwargs': dict(kw, **prob), 'prob': prob, 'valid_stream': True})
    for k in range(n_invalid):
        i, j = rng.choice(pairs)
        def bad(idx):
            if idx == 3:
                return rng.choice([0.0, 0.5, -1.0, 0.6, -1.3, 0.499, -0.5, 0.3, sig(rng.uniform(-1.2, 0.7), 4)])
            return rng.choice([0.0, -1.0e9, 1.0e9, 3.0e10, sig(10 ** rng.uniform(8, 11), 3), sig(-10 ** rng.uniform(8, 11), 3)])
        a, b = bad(i), bad(j)
        # near-degenerate relations the code guards with isclose / sign tests
        r = rng.random()
        if r < 0.25 and i != 3 and j != 3:
            mult = {(0, 4): 1 / 3.0, (1, 2): 3.0, (1, 5): 1.0, (2, 4): 1 / 9.0, (2, 5): rng.choice([1.0, 1 / 9.0, 0.5])}.get((i, j))
            if mult:
                a = abs(a) or 1.0e9
                b = a * mult
        cases.append({'pair': (i, j), 'kwargs': {NAMES[i]: a, NAMES[j]: b}, 'prob': {}, 'valid_stream': False})
    return cases


DEFAULT_PROB = {'ref_density': 3000.0, 'cavity_radius': 0.1, 'pressure_scale': 1.0e6}


def field_expr(bj, name, env_txt):
    args = bj['blake_' + name]['args']
    return '(blake_%s %s)' % (name, ' '.join(env_txt[a] for a in args)) if args else 'blake_' + name


def coq_field_env(mod, prob, r, t):
    lam, g, e, nu, k, m = mod
    tx = {'lame_mod': qlit(lam), 'shear_mod': qlit(g), 'poisson_ratio': qlit(nu), 'long_mod': qlit(m),
          'ref_density': qlit(prob['ref_density']), 'cavity_radius': qlit(prob['cavity_radius']),
          'pressure_scale': qlit(prob['pressure_scale']), 'radii': qlit(r), 'tsnap': qlit(t)}
    tx['cl'] = '(blake_cl %s %s)' % (tx['long_mod'], tx['ref_density'])
    tx['n'] = '(blake_n %s %s %s)' % (tx['cavity_radius'], tx['cl'], tx['poisson_ratio'])
    tx['b'] = '(blake_b %s %s %s)' % (tx['cavity_radius'], tx['cl'], tx['poisson_ratio'])
    tx['k1'] = '(blake_k1 %s %s %s %s %s)' % (tx['b'], tx['cavity_radius'], tx['n'], tx['pressure_scale'], tx['ref_density'])
    return tx


FIELDS_QUICK = ['displacement', 'strain_rr', 'stress_rr', 'density']
FIELDS_ALL = ['position', 'curr_posn', 'displacement', 'strain_rr', 'strain_qq', 'strain_vol', 'density', 'stress_rr', 'stress_qq',
              'pressure', 'stress_dev_rr', 'stress_dev_qq', 'stress_diff']

EL_TACTICS = r"""
Ltac el_unfold_all :=
  unfold elastic_0_pre, elastic_1_pre, elastic_2_pre, elastic_3_pre, elastic_4_pre, elastic_5_pre, elastic_6_pre, elastic_7_pre,
         elastic_8_pre, elastic_9_pre, elastic_10_pre, elastic_11_pre, elastic_12_pre, elastic_13_pre, elastic_14_pre,
         elastic_0_ok, elastic_1_ok, elastic_2_ok, elastic_3_ok, elastic_4_ok, elastic_5_ok, elastic_6_ok, elastic_7_ok,
         elastic_8_ok, elastic_9_ok, elastic_10_ok, elastic_11_ok, elastic_12_ok, elastic_13_ok, elastic_14_ok,
         elastic_given_lame_mod, elastic_given_shear_mod, elastic_given_youngs_mod, elastic_given_poisson_ratio,
         elastic_given_bulk_mod, elastic_given_long_mod in *.
Ltac el_atom :=
  match goal with
  | |- ~ (?a <= ?b) => apply Rlt_not_le; interval with (i_prec 120)
  | |- ~ (?a < ?b) => apply Rle_not_lt; interval with (i_prec 120)
  | |- ~ (?a = ?b) => first [ apply Rlt_not_eq; interval with (i_prec 120) | apply Rgt_not_eq; interval with (i_prec 120) ]
  | |- _ => interval with (i_prec 120)
  end.
Ltac el_accept := el_unfold_all; repeat split; el_atom.
Ltac el_refute_hyp :=
  match goal with
  | H : ?a > ?b |- _ => exfalso; apply (Rgt_not_le _ _ H); interval with (i_prec 120)
  | H : ?a < ?b |- _ => exfalso; apply (Rlt_not_le _ _ H); interval with (i_prec 120)
  | H : ~ (?a <= ?b) |- _ => exfalso; apply H; interval with (i_prec 120)
  | H : ~ (?a < ?b) |- _ => exfalso; apply H; interval with (i_prec 120)
  | H : ~ (?a = ?b) |- _ => exfalso; apply H; lra
  end.
Ltac el_reject := el_unfold_all; intro Hall; repeat match goal with H : _ /\ _ |- _ => destruct H end; el_refute_hyp.
"""


def unit_corr(rng, tier, prop):
    ej = elastic_json()
    bj = json.load(open(os.path.join(H.COQ, 'gen', 'Blake.json')))
    nv, ni = (15, 15) if tier == 'quick' else (90, 120)
    cases = sample_cases(rng, nv, ni)
    npts = 2 if tier == 'quick' else 4
    for c in cases:
        if c['valid_stream']:
            prob = dict(DEFAULT_PROB, **c['prob'])
            a = prob['cavity_radius']
            # wave speed estimate from the intended material (only to place sample points sensibly)
            c['t'] = None
        c['radii'] = None
    # first pass: construct only (moduli / acceptance)
    res = H.run_real(REAL, [{'kwargs': c['kwargs']} for c in cases])
    goals, dis = [], []
    dist = {'accepted': 0, 'rejected': 0, 'by_case': {}}
    second = []
    for c, r in zip(cases, res):
        i, j = c['pair']
        N = case_of(ej, i, j)
        g0, g1 = c['kwargs'][NAMES[i]], c['kwargs'][NAMES[j]]
        dist['by_case'][N] = dist['by_case'].get(N, 0) + 1
        acc, vals = model_eval(ej, N, g0, g1)
        rec = {'kwargs': c['kwargs'], 'prmcase': N, 'real': r if 'error' in r else {'moduli': r['moduli']}, 'model_accepts': acc}
        if 'error' in r:
            dist['rejected'] += 1
            if r['error'] != 'ValueError':
                dis.append(dict(rec, why='construction failed with %s, not ValueError' % r['error']))
                continue
            if acc is True:
                dis.append(dict(rec, why='real constructor raised ValueError on a pair the generated model accepts', model_values=vals))
                continue
            if acc is False:
                goals.append('Goal ~ (elastic_%d_pre %s %s /\\ elastic_%d_ok %s %s).\nProof. el_reject. Qed.' % (N, qlit(g0), qlit(g1), N, qlit(g0), qlit(g1)))
            continue
        dist['accepted'] += 1
        if acc is not True:
            dis.append(dict(rec, why='real constructor accepted a pair the generated model rejects'))
            continue
        goals.append('Goal elastic_%d_pre %s %s /\\ elastic_%d_ok %s %s.\nProof. el_accept. Qed.' % (N, qlit(g0), qlit(g1), N, qlit(g0), qlit(g1)))
        for v, real_v in zip(VARS, r['moduli']):
            tol = Fraction(1, 10 ** 9) * (abs(Fraction(real_v)) + Fraction(1, 10 ** 3))
            goals.append('Goal Rabs (elastic_%d_%s %s %s - %s) <= %s.\nProof. autounfold with epgen. interval with (i_prec 120). Qed.' % (
                N, v, qlit(g0), qlit(g1), qlit(real_v), coq_num(tol)))
        if c['valid_stream']:
            prob = dict(DEFAULT_PROB, **c['prob'])
            a = prob['cavity_radius']
            cl = math.sqrt(r['moduli'][5] / prob['ref_density'])
            t = sig(rng.uniform(0.3, 6.0) * a / cl, 5)
            front = a + cl * t
            radii = sorted(set([sig(a + rng.uniform(0.05, 0.92) * (front - a), 6) for _ in range(npts - 1)] + [sig(front * rng.uniform(1.05, 1.4), 6)]))
            second.append((c, r['moduli'], prob, radii, t))
    res2 = H.run_real(REAL, [{'kwargs': c['kwargs'], 'radii': radii, 't': t} for (c, m, prob, radii, t) in second]) if second else []
    fields = FIELDS_QUICK if tier == 'quick' else FIELDS_ALL
    nfield = 0
    for (c, mod, prob, radii, t), r in zip(second, res2):
        if 'fields' not in r:
            dis.append({'kwargs': c['kwargs'], 'radii': radii, 't': t, 'real': r, 'why': 'real solver failed on an accepted material'})
            continue
        for k, rad in enumerate(radii):
            tx = coq_field_env(mod, prob, rad, t)
            for f in fields:
                v = r['fields'][f][k]
                scale = {'position': 1.0, 'curr_posn': 1.0, 'density': prob['ref_density']}.get(f)
                if scale is None:
                    # strains ~ pressure_scale / long_mod, stresses ~ pressure_scale, displacement ~ strain * radius
                    s0 = prob['pressure_scale'] / mod[5]
                    scale = s0 * rad if f == 'displacement' else (s0 if f.startswith('strain') else prob['pressure_scale'])
                tol = Fraction(1, 10 ** 7) * (abs(Fraction(v)) + Fraction(scale))
                goals.append('Goal Rabs (%s - %s) <= %s.\nProof. autounfold with epgen. corr_solve. Qed.' % (field_expr(bj, f, tx), qlit(v), coq_num(tol)))
                nfield += 1
    dist['field_goals'] = nfield
    files = H.write_case_files('%s_blake' % prop, 'gen.Elastic gen.Blake', goals, per_file=40)
    for fn in files:
        p = os.path.join(H.COQ, fn)
        s = open(p).read()
        s = s.replace('Open Scope R_scope.\n', 'Open Scope R_scope.\n' + EL_TACTICS, 1)
        open(p, 'w').write(s)
    sample_ = {'kwargs': cases[0]['kwargs'], 'distribution': dist} if cases else None
    return files, len(goals), dis, sample_


# ---------------------------------------------------------------------------------------------- oracle (real code only)
ORACLE = r'''
import warnings
from exactpack.solvers.blake import Blake
NAMES = ['lame_mod', 'shear_mod', 'youngs_mod', 'poisson_ratio', 'bulk_mod', 'long_mod']
def main(payload):
    out = []
    for c in payload:
        try:
            with warnings.catch_warnings():
                warnings.simplefilter('ignore')
                s = Blake(**c['kwargs'])
        except Exception as ex:
            out.append({'error': type(ex).__name__, 'msg': str(ex)[:160]})
            continue
        lam, g, e, nu, k, m = [float(getattr(s, n)) for n in NAMES]
        res = {'moduli': [lam, g, e, nu, k, m]}
        try:
            fields_of(s, c, res, lam, g, m)
        except Exception as ex:
            res['run_error'] = type(ex).__name__ + ': ' + str(ex)[:200]
        out.append(res)
    return out

def fields_of(s, c, res, lam, g, m):
    if True:
        a, rho0, ps = float(s.cavity_radius), float(s.ref_density), float(s.pressure_scale)
        cl = (m / rho0) ** 0.5
        t = c['tfac'] * a / cl
        front = a + cl * t
        r = np.array([a + f * (front - a) for f in c['fracs']])
        h = 1e-4 * (front - a)
        def U(rr, tt):
            return np.asarray(s(np.asarray(rr, dtype=float), tt)['displacement'], dtype=float)
        sol = s(r, t)
        u = np.asarray(sol['displacement']); err = np.asarray(sol['strain_rr'])
        ur = (-U(r + 2 * h, t) + 8 * U(r + h, t) - 8 * U(r - h, t) + U(r - 2 * h, t)) / (12 * h)
        urr = (-U(r + 2 * h, t) + 16 * U(r + h, t) - 30 * u + 16 * U(r - h, t) - U(r - 2 * h, t)) / (12 * h * h)
        ht = h / cl
        utt = (-U(r, t + 2 * ht) + 16 * U(r, t + ht) - 30 * u + 16 * U(r, t - ht) - U(r, t - 2 * ht)) / (12 * ht * ht)
        s0 = ps / m
        res['strain_res'] = float(np.max(np.abs(ur - err)) / s0)
        res['wave_res'] = float(np.max(np.abs(utt - cl ** 2 * (urr + 2 * ur / r - 2 * u / r ** 2))) / (cl ** 2 * s0 / a))
        wall = s(np.array([a]), t)
        res['wall_res'] = float(abs(wall['stress_rr'][0] + ps) / ps)
        ahead = s(np.array([front * 1.01, front * 2.0]), t)
        res['ahead'] = float(max(np.max(np.abs(ahead[n])) for n in ('displacement', 'strain_rr', 'stress_rr', 'pressure')))
        eqq = np.asarray(sol['strain_qq']); srr = np.asarray(sol['stress_rr']); sqq = np.asarray(sol['stress_qq'])
        p = np.asarray(sol['pressure'])
        hk = [np.max(np.abs(eqq - u / r)) / s0,
              np.max(np.abs(np.asarray(sol['strain_vol']) - (err + 2 * eqq))) / s0,
              np.max(np.abs(srr - ((lam + 2 * g) * err + 2 * lam * eqq))) / ps,
              np.max(np.abs(sqq - (lam * err + 2 * (lam + g) * eqq))) / ps,
              np.max(np.abs(p + (srr + 2 * sqq) / 3)) / ps,
              np.max(np.abs(np.asarray(sol['stress_dev_rr']) - (srr + p))) / ps,
              np.max(np.abs(np.asarray(sol['stress_dev_qq']) - (sqq + p))) / ps,
              np.max(np.abs(np.asarray(sol['stress_diff']) - np.abs(srr - sqq))) / ps,
              np.max(np.abs(np.asarray(sol['density']) - rho0 / (1 + err + 2 * eqq))) / rho0]
        res['hooke_res'] = float(max(hk))
'''


def oracle(rng, tier, reasons):
    """search the real code for an input on which a C15 statement fails"""
    n = 30 if tier == 'quick' else 150
    cases = sample_cases(rng, n, n // 2)
    payload = []
    for c in cases:
        payload.append({'kwargs': c['kwargs'], 'tfac': rng.uniform(0.5, 5.0), 'fracs': [rng.uniform(0.1, 0.9) for _ in range(3)]})
    res = H.run_real(ORACLE, payload)
    bad = []
    for c, p, r in zip(cases, payload, res):
        if 'error' in r:
            if r['error'] != 'ValueError':
                bad.append({'input': p, 'what': 'construction fails with %s instead of ValueError' % r['error']})
            continue
        lam, g, e, nu, k, m = r['moduli']
        i, j = c['pair']
        given = [c['kwargs'][NAMES[i]], c['kwargs'][NAMES[j]]]
        why = []
        if 'run_error' in r:
            bad.append({'input': p, 'real': r, 'what': 'solver raised on an accepted material: ' + r['run_error']})
            continue
        if not (abs(r['moduli'][i] - given[0]) <= 1e-12 * abs(given[0]) and abs(r['moduli'][j] - given[1]) <= 1e-12 * abs(given[1])):
            why.append('the given values are not reproduced')
        if not (g > 0 and 3 * lam + 2 * g > 0):
            why.append('material is not positive definite')
        else:
            ref = moduli(lam, g)
            rel = max(abs(x - y) / (abs(y) + 1e-30) if idx != 3 else abs(x - y) for idx, (x, y) in enumerate(zip(r['moduli'], ref)))
            if rel > 1e-7:
                why.append('moduli are mutually inconsistent (max relative deviation %.3g from the values implied by lame_mod, shear_mod)' % rel)
        if r['strain_res'] > 1e-4:
            why.append('strain_rr is not d(displacement)/dr (scaled residual %.3g)' % r['strain_res'])
        if r['wave_res'] > 5e-3:
            why.append('wave equation residual %.3g' % r['wave_res'])
        if r['wall_res'] > 1e-6:
            why.append('stress_rr at the cavity wall differs from -pressure_scale (relative %.3g)' % r['wall_res'])
        if r['ahead'] != 0.0:
            why.append('non-zero field ahead of the wave front')
        if r['hooke_res'] > 1e-9:
            why.append('Hooke / deviator / density relations violated (scaled residual %.3g)' % r['hooke_res'])
        if why:
            bad.append({'input': p, 'real': r, 'what': '; '.join(why)})
    return bad
