#!/usr/bin/env python3
"""Numeric oracles that evaluate a property directly on the REAL implementation.
Used only to search for a concrete failing input (replay) when a proof obligation
or the correspondence breaks, and as a thorough-tier cross-check of glue.
They are not what decides a property."""
import json
import random

import harness as H
import gen as G
from py2coq import eval_expr, eval_cond

# -------------------------------------------------------------------------------------
# PDE residuals by 5-point finite differences of the public solver
PDE_SCRIPT = r'''
import importlib
def fields_at(s, r, t, names):
    sol = s(np.array(r, dtype=float), t)
    return {n: np.asarray(sol[n], dtype=float) for n in names}

def d5(fm2, fm1, fp1, fp2, h):
    return (fm2 - 8*fm1 + 8*fp1 - fp2) / (12*h)

def residuals(s, r, t, k, heat, step=1e-3):
    """returns dict of normalised residuals (mass, momentum, energy) at point r,time t"""
    names = ['density', 'velocity', 'pressure', 'specific_internal_energy']
    if heat:
        names.append('temperature')
    hr = step * r
    ht = step * abs(t) if t != 0 else step
    rs = [r - 2*hr, r - hr, r, r + hr, r + 2*hr]
    at_t = fields_at(s, rs, t, names)
    tm = {}
    for j, tt in enumerate([t - 2*ht, t - ht, t + ht, t + 2*ht]):
        tm[j] = fields_at(s, [r], tt, names)
    def dr(n):
        a = at_t[n]
        return d5(a[0], a[1], a[3], a[4], hr)
    def dt(n):
        return d5(tm[0][n][0], tm[1][n][0], tm[2][n][0], tm[3][n][0], ht)
    rho, u, P, e = (at_t[n][2] for n in names[:4])
    out = {}
    terms = [dt('density'), u*dr('density'), rho*dr('velocity'), k*rho*u/r]
    # each residual is normalised by the size of its terms plus the natural scale of the equation,
    # so that identically vanishing terms (finite-difference noise) do not look like a violation
    out['mass'] = abs(sum(terms)) / (sum(abs(x) for x in terms) + abs(rho)*(abs(u)/r + 1/abs(t if t else 1)) + 1e-300)
    terms = [dt('velocity'), u*dr('velocity'), dr('pressure')/rho]
    out['momentum'] = abs(sum(terms)) / (sum(abs(x) for x in terms) + (u*u + abs(P/rho))/r + abs(u)/abs(t if t else 1) + 1e-300)
    terms = [dt('specific_internal_energy'), u*dr('specific_internal_energy'), P/rho*dr('velocity'), P/rho*k*u/r]
    if heat:
        K0, alpha, beta = heat
        # F on a 5-point stencil around r, each from a 5-point derivative of T
        hh = hr
        Fs = []
        for rc in [r - 2*hh, r - hh, r, r + hh, r + 2*hh]:
            h2 = step * rc
            f = fields_at(s, [rc - 2*h2, rc - h2, rc, rc + h2, rc + 2*h2], t, ['density', 'temperature'])
            Tr = d5(f['temperature'][0], f['temperature'][1], f['temperature'][3], f['temperature'][4], h2)
            Fs.append(-K0 * f['density'][2]**alpha * f['temperature'][2]**(beta + 3) * Tr)
        Fr = d5(Fs[0], Fs[1], Fs[3], Fs[4], hh)
        terms += [Fr/rho, k*Fs[2]/r/rho]
    out['energy'] = abs(sum(terms)) / (sum(abs(x) for x in terms) + (abs(e)+abs(P/rho))*(abs(u)/r + 1/abs(t if t else 1)) + 1e-300)
    out['terms_energy'] = [float(x) for x in terms]
    return {k_: (float(v) if not isinstance(v, list) else v) for k_, v in out.items()}

def main(payload):
    res = []
    for c in payload:
        mod = importlib.import_module(c['module'])
        try:
            s = getattr(mod, c['class'])(**c['params'])
            res.append(residuals(s, c['r'], c['t'], c['k'], c.get('heat'), c.get('step', 1e-3)))
        except Exception as ex:
            res.append({'error': type(ex).__name__ + ': ' + str(ex)[:200]})
    return res
'''


def pde_oracle(genfile, pfx, spec=None, rt=None, heat=None, kfun=None, thresh=1e-5, n_quick=24, n_thorough=200,
               region_margin=0.05):
    """returns oracle(rng, tier, reasons) -> list of failing inputs.
    heat: None or callable(params) -> (K0, alpha, beta)."""
    def oracle(rng, tier, reasons):
        cj = H.load_gen(genfile)[pfx]
        dom = G.expr_from_json(cj['dom'])
        fields = [(nm, G.expr_from_json(e)) for nm, e in cj['fields']]
        n = n_thorough if tier == 'thorough' else n_quick
        cases = []
        tries = 0
        while len(cases) < n and tries < 50 * n:
            tries += 1
            p = H.sample_params(rng, cj, spec)
            if rt:
                r, t = rt(rng, p)
            else:
                r, t = round(rng.uniform(0.1, 3.0), 5), round(rng.uniform(0.1, 2.0), 5)
            env = {k: float(v) for k, v in p.items()}
            env.update(r=r, t=t)
            try:
                if not eval_cond(dom, env):
                    continue
                marg = []
                ok = True
                for nm, e in fields:
                    if not H.conds_hold(e, env):
                        ok = False
                        break
                    H.guard_margins(e, env, marg)
                if not ok or (marg and min(marg) < region_margin):
                    continue
            except (ZeroDivisionError, ValueError, OverflowError):
                continue
            k = kfun(p) if kfun else float(p.get('geometry', cj_fixed(cj, 'geometry', 3))) - 1
            c = {'module': cj['module'][:-3].replace('/', '.'), 'class': cj['class'], 'params': p, 'r': r, 't': t, 'k': k}
            if heat:
                c['heat'] = list(heat(p))
            cases.append(c)
        res = H.run_real(PDE_SCRIPT, cases)
        fails = []
        for c, o in zip(cases, res):
            if 'error' in o:
                continue
            vals = [o[k_] for k_ in ('mass', 'momentum', 'energy') if o[k_] == o[k_]]
            worst = max(vals) if vals else 0.0
            if worst > thresh:
                fails.append({'solver': c['class'], 'module': c['module'], 'params': c['params'], 'r': c['r'], 't': c['t'],
                              'normalised_residuals': {k_: o[k_] for k_ in ('mass', 'momentum', 'energy')},
                              'how': 'finite-difference residual of the returned fields in the documented PDE '
                                     '(5-point stencils, relative step 1e-3); threshold %g' % thresh})
        fails.sort(key=lambda f: -max(v for v in f['normalised_residuals'].values() if v == v))
        # confirm every candidate at LARGER step sizes before reporting it: a genuine violation of the PDE does not depend on the step
        # (the 5-point truncation error at relative step 1.6e-2 is ~1e-7 of the terms), whereas cancellation noise in the second
        # derivative of the heat flux falls like 1/step^2; a candidate is kept only if it exceeds the threshold at every step
        confirmed = []
        if fails:
            for f in fails[:10]:
                keep = True
                for stp in (4e-3, 1.6e-2):
                    c = {'module': f['module'], 'class': f['solver'], 'params': f['params'], 'r': f['r'], 't': f['t'],
                         'k': (kfun(f['params']) if kfun else float(f['params'].get('geometry', cj_fixed(cj, 'geometry', 3))) - 1),
                         'step': stp}
                    if heat:
                        c['heat'] = list(heat(f['params']))
                    o2 = H.run_real(PDE_SCRIPT, [c])[0]
                    if 'error' in o2:
                        keep = False
                        break
                    v2 = [o2[k_] for k_ in ('mass', 'momentum', 'energy') if o2[k_] == o2[k_]]
                    if not (v2 and max(v2) > thresh):
                        keep = False
                        break
                    f['normalised_residuals_step_%g' % stp] = {k_: o2[k_] for k_ in ('mass', 'momentum', 'energy')}
                if keep:
                    confirmed.append(f)
        return confirmed
    return oracle


def cj_fixed(cj, name, default):
    v = cj['fixed'].get(name) or cj['defaults'].get(name)
    if v is None:
        return default
    return eval_expr(G.expr_from_json(v), {})


# -------------------------------------------------------------------------------------
# EOS identities on the real implementation
def eos_oracle(genfile, pfx, kind, gamma=None, bigGamma=None, spec=None, rt=None, n_quick=40, n_thorough=400, tol=1e-9):
    """kind: 'cog' (P = Gamma rho T, e = Gamma T/(gamma-1), P=(gamma-1) rho e) or 'gammalaw'.
    gamma, bigGamma: callables(params) (default: the parameter of that name)."""
    def oracle(rng, tier, reasons):
        cj = H.load_gen(genfile)[pfx]
        dom = G.expr_from_json(cj['dom'])
        fields = [(nm, G.expr_from_json(e)) for nm, e in cj['fields']]
        n = n_thorough if tier == 'thorough' else n_quick
        cases = []
        tries = 0
        while len(cases) < n and tries < 50 * n:
            tries += 1
            p = H.sample_params(rng, cj, spec)
            r, t = rt(rng, p) if rt else (round(rng.uniform(0.05, 3.0), 5), round(rng.uniform(0.05, 2.0), 5))
            env = {k: float(v) for k, v in p.items()}
            env.update(r=r, t=t)
            try:
                if not eval_cond(dom, env) or not all(H.conds_hold(e, env) for nm, e in fields):
                    continue
            except (ZeroDivisionError, ValueError, OverflowError):
                continue
            cases.append({'module': cj['module'][:-3].replace('/', '.'), 'class': cj['class'], 'params': p, 'pts': [r], 't': t})
        res = H.call_solvers(cases)
        fails = []
        for c, o in zip(cases, res):
            if 'cols' not in o:
                continue
            col = {k: v[0] for k, v in o['cols'].items()}
            p = c['params']
            g = gamma(p) if gamma else p['gamma']
            P, rho, e = col['pressure'], col['density'], col['specific_internal_energy']
            checks = {'P=(gamma-1) rho e': (P, (g - 1) * rho * e)}
            if kind == 'cog':
                Gm = bigGamma(p) if bigGamma else p['Gamma']
                T = col['temperature']
                checks['P=Gamma rho T'] = (P, Gm * rho * T)
                checks['e=Gamma T/(gamma-1)'] = (e, Gm * T / (g - 1))
            bad = {}
            for nm, (a, b) in checks.items():
                if a != a or b != b:
                    continue
                if abs(a - b) > tol * max(abs(a), abs(b)) + 1e-300:
                    bad[nm] = [a, b]
            if bad:
                fails.append({'solver': c['class'], 'module': c['module'], 'params': p, 'r': c['pts'][0], 't': c['t'],
                              'returned': col, 'violated_identities': bad})
        return fails
    return oracle


# -------------------------------------------------------------------------------------
# Rankine-Hugoniot residuals at a discontinuity located on the real implementation
RH_SCRIPT = r'''
import importlib
NAMES = ['density', 'velocity', 'pressure', 'specific_internal_energy']
def get(s, r, t):
    sol = s(np.array(r, dtype=float), t)
    return {n: np.asarray(sol[n], dtype=float) for n in NAMES}

def locate(s, t, lo, hi):
    """largest relative density jump on a grid, refined by bisection"""
    rs = np.linspace(lo, hi, 4001)
    f = get(s, rs, t)['density']
    j = np.abs(np.diff(f)) / (np.abs(f[:-1]) + np.abs(f[1:]) + 1e-300)
    i = int(np.nanargmax(j))
    if not (j[i] > 1e-3):
        return None
    a, b = rs[i], rs[i + 1]
    fa, fb = f[i], f[i + 1]
    for _ in range(60):
        m = 0.5 * (a + b)
        fm = get(s, [m], t)['density'][0]
        if abs(fm - fa) > abs(fm - fb):
            b, fb = m, fm
        else:
            a, fa = m, fm
    return 0.5 * (a + b)

def rh(s, t, lo, hi):
    dt = 1e-4 * t
    xs = [locate(s, tt, lo, hi) for tt in (t - dt, t, t + dt)]
    if any(x is None for x in xs):
        return {'error': 'no discontinuity found'}
    speed = (xs[2] - xs[0]) / (2 * dt)
    x = xs[1]
    d = 1e-7 * max(abs(x), 1e-3)
    L = {k: v[0] for k, v in get(s, [x - d], t).items()}
    R = {k: v[0] for k, v in get(s, [x + d], t).items()}
    def flux(S):
        rho, u, p, e = S['density'], S['velocity'], S['pressure'], S['specific_internal_energy']
        m = rho * (u - speed)
        return [m, m * u + p, m * (e + u * u / 2) + p * u], [abs(m), abs(m * u) + abs(p), abs(m * (e + u*u/2)) + abs(p * u)]
    fl, sl = flux(L)
    fr, sr = flux(R)
    out = {'x_shock': float(x), 'speed': float(speed), 'left': {k: float(v) for k, v in L.items()}, 'right': {k: float(v) for k, v in R.items()}}
    for nm, a, b, c, d_ in zip(['mass', 'momentum', 'energy'], fl, fr, sl, sr):
        out[nm] = float(abs(a - b) / (c + d_ + 1e-300))
    return out

def main(payload):
    res = []
    for c in payload:
        mod = importlib.import_module(c['module'])
        try:
            s = getattr(mod, c['class'])(**c['params'])
            res.append(rh(s, c['t'], c['lo'], c['hi']))
        except Exception as ex:
            res.append({'error': type(ex).__name__ + ': ' + str(ex)[:200]})
    return res
'''


def rh_oracle(genfile, pfx, spec=None, tsampler=None, window=None, thresh=1e-4, n_quick=12, n_thorough=100):
    """window(params, t) -> (lo, hi) position interval containing the single discontinuity"""
    def oracle(rng, tier, reasons):
        cj = H.load_gen(genfile)[pfx]
        n = n_thorough if tier == 'thorough' else n_quick
        cases = []
        for _ in range(n):
            p = H.sample_params(rng, cj, spec)
            t = tsampler(rng, p) if tsampler else round(rng.uniform(0.2, 2.0), 5)
            lo, hi = window(p, t) if window else (1e-3, 5.0)
            cases.append({'module': cj['module'][:-3].replace('/', '.'), 'class': cj['class'], 'params': p, 't': t, 'lo': lo, 'hi': hi})
        res = H.run_real(RH_SCRIPT, cases)
        fails = []
        for c, o in zip(cases, res):
            if 'error' in o:
                continue
            worst = max(o['mass'], o['momentum'], o['energy'])
            if worst > thresh:
                fails.append({'solver': c['class'], 'module': c['module'], 'params': c['params'], 't': c['t'],
                              'located_discontinuity': o['x_shock'], 'speed_from_neighbouring_times': o['speed'],
                              'left_state': o['left'], 'right_state': o['right'],
                              'normalised_jump_defects': {k: o[k] for k in ('mass', 'momentum', 'energy')}})
        fails.sort(key=lambda f: -max(f['normalised_jump_defects'].values()))
        return fails
    return oracle
