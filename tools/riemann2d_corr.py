#!/usr/bin/env python3
"""C19: correspondence of gen/Riemann2D.v with the real state functions, and an oracle on the real 2-D steady Riemann
solver (slip-line balance, oblique-shock jump conditions from the returned fields and the reported shock angle,
isentropic / isenthalpic fans, turning angle against the Prandtl-Meyer function, mutual consistency of the fields)."""
import math
import os
from fractions import Fraction
import harness as H
from harness import qlit
from py2coq import coq_num

REAL = r'''
import warnings
from exactpack.solvers.riemann2D_2section_steadystate.riemann2D_2section_steadystate import SetupRiemannProblem
def main(payload):
    with warnings.catch_warnings():
        warnings.simplefilter('ignore')
        prob = SetupRiemannProblem([1., 1., 2.4, 0., 1.4], [0.25, 0.5, 7.0, 0., 1.4])
        out = []
        for c in payload:
            try:
                if c['fn'] == 'pm':
                    out.append([float(prob.PrandtlMeyer_function(c['M'], c['g']))])
                else:
                    f = prob.compression_states if c['fn'] == 'shock' else prob.expansion_states
                    d, r, M = f(c['ps'], c['state'])
                    out.append([float(d), float(r), float(M)])
            except Exception as ex:
                out.append({'error': type(ex).__name__ + ': ' + str(ex)[:200]})
    return out
'''


def r4(rng, lo, hi):
    return float('%.4g' % rng.uniform(lo, hi))


def unit_corr(rng, tier, prop):
    import json
    js = json.load(open(os.path.join(H.COQ, 'gen', 'Riemann2D.json')))
    n = 4 if tier == 'quick' else 30
    cases = []
    for _ in range(n):
        state = [r4(rng, 0.2, 3), r4(rng, 0.2, 3), r4(rng, 1.5, 6), r4(rng, -20, 20), r4(rng, 1.2, 1.9)]
        cases.append({'fn': 'shock', 'ps': state[0] * r4(rng, 1.05, 2.5), 'state': state})
        cases.append({'fn': 'fan', 'ps': state[0] * r4(rng, 0.2, 0.95), 'state': state})
        cases.append({'fn': 'pm', 'M': r4(rng, 1.05, 6), 'g': r4(rng, 1.2, 1.9)})
    res = H.run_real(REAL, cases)
    goals, dis = [], []
    for c, r in zip(cases, res):
        if isinstance(r, dict):
            dis.append({'case': c, 'real': r, 'why': 'real implementation raised'})
            continue
        if c['fn'] == 'pm':
            names = ['r2d_prandtl_meyer']
            env = {'Ms': c['M'], 'g': c['g']}
        else:
            pfx = 'r2d_shock' if c['fn'] == 'shock' else 'r2d_fan'
            names = [pfx + '_deflection', pfx + '_density', pfx + '_Mach']
            env = dict(zip(['p0', 'r0', 'M0', 'theta0_deg', 'g'], c['state']), ps=c['ps'])
        for nm, v in zip(names, r):
            if not math.isfinite(v):
                continue          # outside the domain (nan from a negative radicand): nothing to compare
            args = ' '.join(qlit(env[a]) for a in js[nm]['args'])
            tol = Fraction(1, 10 ** 9) * (abs(Fraction(v)) + 1)
            goals.append('Goal Rabs (%s %s - %s) <= %s.\nProof. autounfold with epgen. interval with (i_prec 100). Qed.' % (nm, args, qlit(v), coq_num(tol)))
    files = H.write_case_files('%s_r2d' % prop, 'gen.Riemann2D', goals, per_file=30)
    return files, len(goals), dis, (cases[0] if cases else None)


ORACLE = r'''
import warnings
from exactpack.solvers.riemann2D_2section_steadystate.ep_riemann2D_2section_steadystate import IGEOS_Solver
def nu(M, g):
    return np.sqrt((g + 1) / (g - 1)) * np.arctan(np.sqrt((g - 1) / (g + 1) * (M * M - 1))) - np.arctan(np.sqrt(M * M - 1))
def main(payload):
    out = []
    for c in payload:
        try:
            with warnings.catch_warnings():
                warnings.simplefilter('ignore')
                s = IGEOS_Solver(bottom_state=c['bottom'], top_state=c['top'])
                angs = np.linspace(-1.3, 1.3, 261)
                sol = s([(1.0, float(np.tan(a))) for a in angs], 0.25)
            res = {'morphology': s.morphology}
            p, r, e, M, u, v, sp = (np.asarray(sol[k], float) for k in ('pressure', 'density', 'specific_internal_energy', 'Mach', 'x_velocity', 'y_velocity', 'speed'))
            cd = float(s.angles['CD'])
            g = np.where(angs < cd, c['bottom'][4], c['top'][4])
            ok = np.isfinite(p) & (np.abs(angs - cd) > 0.011)
            for key in ('BS', 'TS'):
                if key in s.angles:
                    ok &= np.abs(angs - float(s.angles[key])) > 0.011
            res['speed'] = float(np.max(np.abs(sp - np.sqrt(u * u + v * v))[ok] / sp[ok]))
            res['mach'] = float(np.max(np.abs(M - sp / np.sqrt(g * p / r))[ok] / M[ok]))
            res['eos'] = float(np.max(np.abs(e - p / r / (g - 1))[ok] / e[ok]))
            # slip line: same pressure and same flow direction on both sides
            ib = np.nonzero(ok & (angs < cd))[0][-1]; it = np.nonzero(ok & (angs > cd))[0][0]
            res['slip_pressure'] = float(abs(p[ib] - p[it]) / p[ib])
            res['slip_direction'] = float(abs(np.arctan2(v[ib], u[ib]) - np.arctan2(v[it], u[it])))
            res['slip_is_streamline'] = float(abs(np.arctan2(v[ib], u[ib]) - cd))
            # each wave
            for side, key_s, key_r, st, sgn in (('bottom', 'BS', 'BR', c['bottom'], -1), ('top', 'TS', 'TR', c['top'], +1)):
                p0, r0, M0, th_deg, gg = st
                th0 = th_deg / 180 * np.pi
                c0 = np.sqrt(gg * p0 / r0); q0 = M0 * c0
                u0 = q0 * np.array([np.cos(th0), np.sin(th0)])
                i_star = ib if side == 'bottom' else it
                u1 = np.array([u[i_star], v[i_star]]); p1, r1 = p[i_star], r[i_star]
                h0 = gg / (gg - 1) * p0 / r0 + q0 * q0 / 2; h1 = gg / (gg - 1) * p1 / r1 + u1.dot(u1) / 2
                res[side + '_total_enthalpy'] = float(abs(h1 - h0) / h0)
                if key_s in s.angles:
                    a = float(s.angles[key_s])
                    t = np.array([np.cos(a), np.sin(a)]); n = np.array([-np.sin(a), np.cos(a)])
                    m0, m1 = r0 * u0.dot(n), r1 * u1.dot(n)
                    res[side + '_shock_mass'] = float(abs(m1 - m0) / abs(m0))
                    res[side + '_shock_momentum'] = float(abs((p1 + m1 * u1.dot(n)) - (p0 + m0 * u0.dot(n))) / (p0 + abs(m0 * u0.dot(n))))
                    res[side + '_shock_tangential'] = float(abs(u1.dot(t) - u0.dot(t)) / q0)
                    res[side + '_shock_compressive'] = float(max(0.0, p0 - p1) / p0)
                else:
                    res[side + '_fan_isentropic'] = float(abs(p1 / r1 ** gg - p0 / r0 ** gg) / (p0 / r0 ** gg))
                    M1 = np.sqrt(u1.dot(u1)) / np.sqrt(gg * p1 / r1)
                    turn = abs(np.arctan2(u1[1], u1[0]) - th0)
                    res[side + '_fan_turning_vs_prandtl_meyer'] = float(abs(turn - (nu(M1, gg) - nu(M0, gg))))
                    # the same relation with the library's OWN Prandtl-Meyer function evaluated for this stream's gamma (the coded function has a
                    # recorded defect; whatever it is, a fan must turn its stream by the difference of that function between M0 and M*)
                    from exactpack.solvers.riemann2D_2section_steadystate.riemann2D_2section_steadystate import SetupRiemannProblem
                    pmf = SetupRiemannProblem(list(c['bottom']), list(c['top'])).PrandtlMeyer_function
                    res[side + '_fan_turning_vs_coded_nu'] = float(abs(turn - abs(float(pmf(M1, gg)) - float(pmf(M0, gg)))))
            out.append(res)
        except Exception as ex:
            out.append({'error': type(ex).__name__ + ': ' + str(ex)[:200]})
    return out
'''
THRESH = {'speed': 1e-12, 'mach': 1e-8, 'eos': 1e-12, 'slip_pressure': 1e-8, 'slip_direction': 1e-6, 'slip_is_streamline': 1e-6,
          'total_enthalpy': 1e-6, 'shock_mass': 1e-5, 'shock_momentum': 1e-5, 'shock_tangential': 1e-5, 'shock_compressive': 0.0,
          'fan_isentropic': 1e-8, 'fan_turning_vs_prandtl_meyer': 1e-5, 'fan_turning_vs_coded_nu': 1e-6}


def sample(rng, n):
    cases = [{'bottom': [1., 1., 2.4, 0., 1.4], 'top': [0.25, 0.5, 7.0, 0., 1.4]}]
    for _ in range(n):
        gb, gt = r4(rng, 1.25, 1.7), r4(rng, 1.25, 1.7)
        cases.append({'bottom': [r4(rng, 0.3, 2), r4(rng, 0.3, 2), r4(rng, 1.8, 5), r4(rng, -8, 8), gb],
                      'top': [r4(rng, 0.3, 2), r4(rng, 0.3, 2), r4(rng, 1.8, 5), r4(rng, -8, 8), gt]})
    # two streams with the SAME Mach number and different gammas, the top stream at the lower pressure (so that its wave is a fan): anything
    # remembered per Mach number instead of per stream is then shared between the two
    for _ in range(max(1, n // 2)):
        M = r4(rng, 2.0, 4.0); gb, gt = r4(rng, 1.25, 1.45), r4(rng, 1.55, 1.7)
        if rng.random() < 0.5:
            gb, gt = gt, gb
        pb = r4(rng, 0.8, 2)
        cases.append({'bottom': [pb, r4(rng, 0.3, 2), M, 0.0, gb], 'top': [pb * r4(rng, 0.25, 0.7), r4(rng, 0.3, 2), M, 0.0, gt]})
    return cases


def run(rng, tier, cases=None):
    cases = cases if cases is not None else sample(rng, 3 if tier == 'quick' else 25)
    res = H.run_real(ORACLE, cases, timeout=1800)
    fails = []
    for c, r in zip(cases, res):
        if 'error' in r:
            continue          # no solution without vacuum / outside the tabulated pressure range: not in the quantifier
        for k, v in r.items():
            if k == 'morphology':
                continue
            base = k.split('_', 1)[1] if k.split('_', 1)[0] in ('bottom', 'top') else k
            if not (v <= THRESH[base]):
                fails.append({'check': base, 'side': k.split('_', 1)[0] if base != k else None, 'residual': v, 'threshold': THRESH[base],
                              'input': c, 'morphology': r['morphology']})
    return fails, list(zip(cases, res))


if __name__ == '__main__':
    import random, sys
    fails, allr = run(random.Random(int(sys.argv[1]) if len(sys.argv) > 1 else 0), 'quick')
    for c, r in allr:
        print(c, {k: ('%.1e' % v if isinstance(v, float) else v) for k, v in r.items()})
    print(sorted(set(f['check'] for f in fails)))
