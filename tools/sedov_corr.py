#!/usr/bin/env python3
"""C11: correspondence of gen/Sedov.v with the real Sedov object: constructor constants, similarity functions and energy
integrands for the three special_singularity values, shock radius / post-shock state, alpha assembly - decided inside Coq."""
import json
import math
import os
from fractions import Fraction
import harness as H
from harness import qlit
from py2coq import coq_num

REAL = r'''
import warnings
from exactpack.solvers.sedov import Sedov
CONSTS = ['gamm1', 'gamp1', 'gpogm', 'xg2', 'v2', 'vstar', 'a0', 'a1', 'a2', 'a3', 'a4', 'a5', 'a_val', 'b_val', 'c_val', 'd_val', 'e_val']
def main(payload):
    out = []
    for c in payload:
        try:
            with warnings.catch_warnings():
                warnings.simplefilter('ignore')
                s = Sedov(**c['params'])
                s(np.array([0.5, 1.0]), c['t'])
                o = {'type': s.solution_type, 'special': s.special_singularity, 'consts': {k: float(getattr(s, k)) for k in CONSTS},
                     'denom2': float(s.denom2), 'denom3': float(s.denom3),
                     'alpha': float(s.alpha), 'eval1': float(s.eval1), 'eval2': float(s.eval2),
                     'run': {k: float(getattr(s, k)) for k in ('r2', 'rho1', 'us', 'u2', 'rho2', 'p2')}, 'funcs': []}
                if s.solution_type != 'singular':
                    lo, hi = sorted([float(s.vmin), float(s.v2)])
                    for fr in c['fracs']:
                        v = lo + fr * (hi - lo)
                        l, dl, f, g, h = (float(z) for z in s.sedov_funcs_standard(v))
                        o['funcs'].append({'v': v, 'lam': l, 'dlamdv': dl, 'f': f, 'g': g, 'h': h, 'efun01': float(s.efun01(v)), 'efun02': float(s.efun02(v))})
                out.append(o)
        except Exception as ex:
            out.append({'error': type(ex).__name__ + ': ' + str(ex)[:200]})
    return out
'''


def unit_corr(rng, tier, prop):
    import sedov_oracle as SO
    js = json.load(open(os.path.join(H.COQ, 'gen', 'Sedov.json')))
    cs = SO.cases(rng, 1 if tier == 'quick' else 6)
    for c in cs:
        c['fracs'] = [round(rng.uniform(0.15, 0.95), 4) for _ in range(2)]
    res = H.run_real(REAL, cs)
    goals, dis = [], []
    hit = {}
    for c, o in zip(cs, res):
        if 'error' in o:
            dis.append({'case': c, 'real': o, 'why': 'real implementation raised'})
            continue
        P = c['params']
        base = {'geometry': P['geometry'], 'gamma': P['gamma'], 'omega': P['omega'], 'rho0': P['rho0'], 'eblast': P['eblast'], 't': c['t']}
        hit[o['special'] + '/' + o['type']] = hit.get(o['special'] + '/' + o['type'], 0) + 1

        def goal(nm, env, v, rel=1e-9):
            if not math.isfinite(v):
                return
            args = ' '.join(qlit(env[a]) for a in js[nm]['args'])
            tol = Fraction(rel) * (abs(Fraction(v)) + Fraction(1, 10 ** 6))
            goals.append('Goal Rabs (%s %s - %s) <= %s.\nProof. autounfold with epgen. corr_solve. Qed.' % (nm, args, qlit(v), coq_num(tol)))
        # constructor constants (the special branches overwrite denom2 / denom3 with 1e-8 AFTER the guard: constants that divide by them
        # are compared only in the non-special case)
        for k, v in o['consts'].items():
            if o['special'] != 'none' and k in ('a1', 'a2', 'a3', 'a4', 'a5'):
                continue
            goal('sed_' + k, base, v)
        # similarity functions with the instance's own constants as arguments
        env = dict(base, **o['consts'])
        tag = {'none': 'std', 'omega2': 'om2', 'omega3': 'om3'}[o['special']]
        for f in o['funcs']:
            e2 = dict(env, v=f['v'])
            for nm in ('lam', 'dlamdv', 'f', 'g', 'h', 'efun01', 'efun02'):
                if abs(f[nm]) > 1e80 or abs(f[nm]) < 1e-80:
                    continue
                goal('sed_%s_%s' % (tag, nm), e2, f[nm], rel=1e-7)
        # shock radius and post-shock state from the instance's alpha
        envr = dict(env, alpha=o['alpha'])
        for k, v in o['run'].items():
            goal('sed_' + k, envr, v)
        # alpha assembly (non-singular): alpha = f(eval1, eval2)
        if o['type'] != 'singular':
            enva = dict(env, eval1=o['eval1'], eval2=o['eval2'])
            goal('sed_alpha_planar' if P['geometry'] == 1 else 'sed_alpha_curved', enva, o['alpha'])
    files = H.write_case_files('%s_sedov' % prop, 'gen.Sedov', goals, per_file=25)
    sample = dict(cs[0], branches_hit=hit) if cs else None
    return files, len(goals), dis, sample
