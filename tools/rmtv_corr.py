#!/usr/bin/env python3
"""C02 (RMTV): correspondence of the regenerated shock map and conversion tail with the real rmtv_1d. solve_ivp is replaced by a probe: the
first integration 'returns' chosen pre-shock similarity variables, the second call receives the post-shock variables the code computed
(captured) and 'returns' chosen final values; the fields rmtv_1d returns are then the conversion tail applied to those values. The model
functions are evaluated on the same numbers inside Coq (Interval)."""
import json
import os
from fractions import Fraction
import harness as H
from harness import qlit
from py2coq import coq_num

REAL = r'''
import exactpack.solvers.rmtv.timmes as T
class Fake:
    def __init__(self, y): self.y = np.array(y, dtype=float).reshape(4, 1)
def main(payload):
    out = []
    for c in payload:
        try:
            calls = []
            seq = [c['pre'], c['final']]
            def fake(fun, span, y0, **kw):
                calls.append({'span': [float(span[0]), float(span[1])], 'y0': [float(v) for v in y0]})
                return Fake(seq[len(calls) - 1])
            T.solve_ivp = fake
            P = c['params']
            den, tev, ener, pres, vel = T.rmtv_1d(c['rpos'], P['aval'], P['bval'], P['chi0'], P['gamma'], P['bigamma'], P['rf'], P['xif'], P['xis'], P['beta0'], P['g0'])
            out.append({'calls': calls, 'fields': {'density': float(den), 'temperature': float(tev), 'energy': float(ener), 'pressure': float(pres), 'velocity': float(vel)},
                        'alpha': float(T.alpha), 'kappa': float(T.kappa), 'sigma': float(T.sigma)})
        except Exception as ex:
            out.append({'error': type(ex).__name__ + ': ' + str(ex)[:200]})
    return out
'''


def cases(rng, n):
    out = []
    for _ in range(n):
        P = {'aval': -2.0, 'bval': 6.5, 'chi0': round(rng.uniform(0.5, 2), 3), 'gamma': round(rng.uniform(1.15, 1.6), 3), 'bigamma': round(rng.uniform(0.5, 2), 3),
             'rf': 0.9, 'xif': 2.0, 'xis': 1.0, 'beta0': 7.197534e7, 'g0': round(rng.uniform(0.5, 3), 3)}
        pre = [round(rng.uniform(0.1, 0.5), 4), round(rng.uniform(0.5, 3), 4), round(rng.uniform(0.1, 2), 4), round(rng.uniform(0.05, 0.3), 4)]
        fin = [round(rng.uniform(0.1, 0.9), 4), round(rng.uniform(0.5, 30), 4), round(rng.uniform(0.1, 2), 4), round(rng.uniform(0.05, 0.3), 4)]
        out.append({'params': P, 'rpos': round(rng.uniform(0.05, 0.4), 4), 'pre': pre, 'final': fin})      # rs = rf / xif * xis = 0.45
    return out


def unit_corr(rng, tier, prop):
    js = json.load(open(os.path.join(H.COQ, 'gen', 'Rmtv.json')))
    cs = cases(rng, 3 if tier == 'quick' else 12)
    res = H.run_real(REAL, cs, timeout=900)
    goals, dis = [], []

    def goal(nm, env, v, rel=Fraction(1, 10 ** 9)):
        args = ' '.join(qlit(env[a]) for a in js[nm]['args'])
        tol = rel * abs(Fraction(v)) + Fraction(1, 10 ** 300)
        goals.append('Goal Rabs (%s %s - %s) <= %s.\nProof. autounfold with epgen. corr_solve. Qed.' % (nm, args, qlit(v), coq_num(tol)))
    for c, r in zip(cs, res):
        if 'error' in r:
            dis.append({'case': c, 'real': r, 'why': 'real rmtv_1d raised under the solve_ivp probe'}); continue
        if len(r['calls']) != 2:
            dis.append({'case': c, 'calls': r['calls'], 'why': 'rmtv_1d behind the shock did not integrate twice (shock branch not taken?)'}); continue
        env = dict(zip(js['shockmap_args'], c['pre']))
        for i in range(4):
            goal('rmtv_shock_y%d' % i, env, r['calls'][1]['y0'][i])
        # the second integration starts where the first one ended (the shock position) - the map is applied AT the shock
        if abs(r['calls'][0]['span'][1] - r['calls'][1]['span'][0]) > 0:
            dis.append({'case': c, 'calls': r['calls'], 'why': 'second integration does not start at the end point of the first'})
    files = H.write_case_files('%s_rmtvshock' % prop, 'gen.Rmtv', goals)
    return files, len(goals), dis, {'case': cs[0], 'observed': res[0]}
