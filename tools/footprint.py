#!/usr/bin/env python3
"""Def-use footprint of hidden state in /repo/exactpack/solvers (Python ast, no import of exactpack):

 * module-level globals that functions declare `global`: for every such function an abstract access program
   (sequence of Read x / Write x in evaluation order, branch bodies flattened conservatively) -- emitted as Coq
   data so that `dominated` (every Read x is preceded by a Write x in the same activation) is decided by
   vm_compute and the History theorem applies;
 * functions that READ a module global written by some other function without writing it themselves
   (callee reads: the writer must have run earlier in the same evaluation -- listed with the set of writers);
 * class-level mutable objects and mutable default arguments of solver classes (state shared between instances).
Emits coq/gen/Footprint.v and .json."""
import ast
import json
import os
import sys

sys.path.insert(0, os.path.dirname(os.path.abspath(__file__)))
import gen as G
import catalogue as C

SOLVERS = C.SOLVERS


class Access(ast.NodeVisitor):
    """collects accesses to the given names in evaluation order (value before target)"""

    def __init__(self, names, helpers=()):
        self.names = names
        self.helpers = set(helpers)
        self.seq = []

    depth = 0            # nesting inside if/for/while/try/with: writes there may not happen, so they do not dominate
    guard = None         # (global, constant) when inside `if <global> == <int literal>:`

    def emit(self, kind, x, ln, const=None):
        if kind == 'W':
            if self.depth > 0:
                return                        # conservative: a conditional write dominates nothing
            self.seq.append(('WC', x, ln, const) if const is not None else ('W', x, ln))
        elif kind == 'R':
            if self.guard is not None:
                self.seq.append(('RI', x, ln, self.guard))
            else:
                self.seq.append(('R', x, ln))
        else:
            self.seq.append((kind, x, ln))

    def visit_Assign(self, n):
        self.visit(n.value)
        const = None
        if isinstance(n.value, ast.Constant) and isinstance(n.value.value, int) and not isinstance(n.value.value, bool):
            const = n.value.value
        for t in n.targets:
            if isinstance(t, ast.Name) and t.id in self.names:
                self.emit('W', t.id, n.lineno, const)
            else:
                self.visit(t)

    def nested(self, nodes):
        self.depth += 1
        for x in nodes:
            self.visit(x)
        self.depth -= 1

    def visit_If(self, n):
        t = n.test
        g = None
        if isinstance(t, ast.Compare) and len(t.ops) == 1 and isinstance(t.ops[0], ast.Eq) and isinstance(t.left, ast.Name) \
                and t.left.id in self.names and isinstance(t.comparators[0], ast.Constant) and isinstance(t.comparators[0].value, int):
            g = (t.left.id, t.comparators[0].value)
        if g is not None and self.guard is None:
            self.guard = g
            body_has = Access(self.names, self.helpers)
            self.nested(n.body)
            self.guard = None
            # the guard itself is read even when the body reads nothing
            self.seq.append(('RI', g[0], n.lineno, g)) if False else None
            self.emit('R', g[0], n.lineno) if not any(k == 'RI' and gg == g for (k, *_r, gg) in [a for a in self.seq if a[0] == 'RI']) else None
        else:
            self.visit(t)
            self.nested(n.body)
        self.nested(n.orelse)

    def visit_For(self, n):
        self.visit(n.iter)
        self.nested(n.body + n.orelse)

    def visit_While(self, n):
        self.visit(n.test)
        self.nested(n.body + n.orelse)

    def visit_Try(self, n):
        self.nested(n.body + [h for h in n.handlers] + n.orelse + n.finalbody)

    def visit_With(self, n):
        for it in n.items:
            self.visit(it.context_expr)
        self.nested(n.body)

    def visit_AugAssign(self, n):
        # x += e reads x then writes x
        if isinstance(n.target, ast.Name) and n.target.id in self.names:
            self.emit('R', n.target.id, n.lineno)
        self.visit(n.value)
        self.visit(n.target)

    def visit_Name(self, n):
        if n.id in self.names:
            self.emit('W' if isinstance(n.ctx, (ast.Store, ast.Del)) else 'R', n.id, n.lineno)
        elif n.id in self.helpers and isinstance(n.ctx, ast.Load):
            self.seq.append(('C', n.id, n.lineno, self.guard))     # mention of a helper function (call or callback argument)

    def visit_Import(self, n):
        for al in n.names:
            nm = al.asname or al.name.split('.')[0]
            if nm in self.names:
                self.emit('W', nm, n.lineno)

    visit_ImportFrom = visit_Import

    def visit_FunctionDef(self, n):
        pass      # nested functions analysed separately

    def visit_Lambda(self, n):
        pass


def function_globals(fn):
    gl = []
    for st in ast.walk(fn):
        if isinstance(st, ast.Global):
            gl += st.names
    return sorted(set(gl))


def analyse_module(path):
    mod = G.load_module(path)
    rel = os.path.relpath(path, G.REPO)
    funcs = {}
    for node in ast.walk(mod.tree):
        if isinstance(node, ast.FunctionDef):
            funcs[node.name] = node
    module_names = set()
    for st in mod.tree.body:
        if isinstance(st, ast.Assign):
            for t in st.targets:
                if isinstance(t, ast.Name):
                    module_names.add(t.id)
    declared = {}
    for name, fn in funcs.items():
        g = function_globals(fn)
        if g:
            declared[name] = g
    all_globals = sorted(set(x for g in declared.values() for x in g))
    out = {'module': rel, 'globals': all_globals, 'functions': []}
    if not all_globals:
        return out
    for name, fn in funcs.items():
        acc = Access(set(all_globals), helpers=[h for h in funcs if h != name])
        # a name is the module global inside fn only if declared global there, or if fn never assigns it (plain read)
        local_assigned = set()
        for st in ast.walk(fn):
            if isinstance(st, ast.Name) and isinstance(st.ctx, ast.Store):
                local_assigned.add(st.id)
        params = set(a.arg for a in fn.args.args)
        decl = set(declared.get(name, []))
        visible = set(x for x in all_globals if (x in decl) or (x not in local_assigned and x not in params))
        acc.names = visible
        for st in fn.body:
            acc.visit(st)
        if acc.seq:
            out['functions'].append({'name': name, 'declares': sorted(decl), 'accesses': [list(a) for a in acc.seq]})
    # inline helper programs at their first mention (transitively): the full access program of an activation
    byname = {f['name']: f for f in out['functions']}

    def inline(name, stack):
        res = []
        for a in byname[name]['accesses']:
            if a[0] == 'C':
                if a[1] in byname and a[1] not in stack:
                    res += inline(a[1], stack + [a[1]])
            else:
                res.append(list(a))
        return res
    mentioned = set(a[1] for f in out['functions'] if f['declares'] for a in f['accesses'] if a[0] == 'C')
    for f in out['functions']:
        f['inlined'] = inline(f['name'], [f['name']])
    out['functions'] = [f for f in out['functions'] if any(a[0] != 'C' for a in f['inlined'])]
    # entries: functions that declare globals and are not themselves helpers of another function of the module
    for f in out['functions']:
        f['entry'] = bool(f['declares']) and f['name'] not in mentioned
    return out


MUT_CALLS_OK = {'dict', 'list', 'set'}


def class_state(cat_entry):
    mod = G.load_module(os.path.join(G.REPO, cat_entry['file']))
    cnode = mod.classes[cat_entry['class']]
    mut = []
    for st in cnode.body:
        if isinstance(st, ast.Assign) and len(st.targets) == 1 and isinstance(st.targets[0], ast.Name):
            nm = st.targets[0].id
            if nm == 'parameters' or nm.endswith('_desc') or nm.endswith('_descriptions') or nm.endswith('_names') or nm.endswith('_order') or nm.endswith('_dflts'):
                continue
            v = st.value
            if isinstance(v, ast.Call):
                fn = v.func.id if isinstance(v.func, ast.Name) else (v.func.attr if isinstance(v.func, ast.Attribute) else '')
                if fn in ('dict', 'zip', 'tuple', 'float', 'int', 'range', 'array', 'sqrt'):
                    continue
                mut.append('%s = %s(...) line %d' % (nm, fn, st.lineno))
            elif isinstance(v, (ast.List, ast.Dict, ast.Set)):
                mut.append('%s = <%s literal> line %d' % (nm, type(v).__name__.lower(), st.lineno))
    mdef = []
    for st in cnode.body:
        if isinstance(st, ast.FunctionDef):
            for a, d in zip(st.args.args[len(st.args.args) - len(st.args.defaults):], st.args.defaults):
                if isinstance(d, (ast.List, ast.Dict, ast.Set)):
                    # only a problem when the function mutates it
                    mutated = any(isinstance(x, (ast.Assign, ast.AugAssign)) and any(
                        isinstance(t, ast.Subscript) and isinstance(t.value, ast.Name) and t.value.id == a.arg
                        for t in (x.targets if isinstance(x, ast.Assign) else [x.target])) for x in ast.walk(st))
                    if mutated:
                        mdef.append('%s(%s=<mutable default, mutated in the body>) line %d' % (st.name, a.arg, st.lineno))
    return mut, mdef


MUTATORS = {'append', 'extend', 'insert', 'update', 'setdefault', 'add', 'pop', 'popitem', 'clear', 'remove', 'discard', 'sort', 'reverse'}


def module_containers(path):
    """module-level names bound to a mutable container (dict / list / set literal or constructor call) that some function of the
    module mutates (item store, del, augmented item assignment, mutating method) - i.e. caches and registries that survive a call"""
    src = open(path).read()
    tree = ast.parse(src, filename=path)
    cont = {}
    for st in tree.body:
        if isinstance(st, ast.Assign) and len(st.targets) == 1 and isinstance(st.targets[0], ast.Name):
            v = st.value
            if isinstance(v, (ast.Dict, ast.List, ast.Set, ast.DictComp, ast.ListComp, ast.SetComp)):
                cont[st.targets[0].id] = st.lineno
            elif isinstance(v, ast.Call):
                fn = v.func.id if isinstance(v.func, ast.Name) else (v.func.attr if isinstance(v.func, ast.Attribute) else '')
                if fn in ('dict', 'list', 'set', 'defaultdict', 'OrderedDict', 'deque', 'Counter', 'zeros', 'empty', 'ones'):
                    cont[st.targets[0].id] = st.lineno
    hits = []
    if not cont:
        return hits
    for fn in ast.walk(tree):
        if not isinstance(fn, (ast.FunctionDef, ast.Lambda)):
            continue
        local = set()
        if isinstance(fn, ast.FunctionDef):
            local = {a.arg for a in fn.args.args + fn.args.kwonlyargs}
            for x in ast.walk(fn):
                if isinstance(x, ast.Assign):
                    for t in x.targets:
                        if isinstance(t, ast.Name):
                            local.add(t.id)
            for x in ast.walk(fn):
                if isinstance(x, ast.Global):
                    local -= set(x.names)
        for x in ast.walk(fn):
            tgt = []
            if isinstance(x, ast.Assign):
                tgt = x.targets
            elif isinstance(x, ast.AugAssign):
                tgt = [x.target]
            elif isinstance(x, ast.Delete):
                tgt = x.targets
            for t in tgt:
                if isinstance(t, ast.Subscript) and isinstance(t.value, ast.Name) and t.value.id in cont and t.value.id not in local:
                    hits.append('%s (line %d) item-assigned in %s line %d' % (t.value.id, cont[t.value.id], getattr(fn, 'name', '<lambda>'), x.lineno))
            if isinstance(x, ast.Call) and isinstance(x.func, ast.Attribute) and x.func.attr in MUTATORS \
                    and isinstance(x.func.value, ast.Name) and x.func.value.id in cont and x.func.value.id not in local:
                hits.append('%s (line %d) .%s() in %s line %d' % (x.func.value.id, cont[x.func.value.id], x.func.attr, getattr(fn, 'name', '<lambda>'), x.lineno))
    return sorted(set(hits))


def instance_carry(cat_entry):
    """self attributes that a method other than __init__ both reads and writes with a read that does not come after the first write
    of the same method (line order): state carried from one call of the object to the next (caches keyed on part of the request)"""
    mod = G.load_module(os.path.join(G.REPO, cat_entry['file']))
    cnode = mod.classes[cat_entry['class']]
    hits = []
    for st in cnode.body:
        if not isinstance(st, ast.FunctionDef) or st.name == '__init__':
            continue
        stores, loads = {}, {}
        for x in ast.walk(st):
            if isinstance(x, ast.Attribute) and isinstance(x.value, ast.Name) and x.value.id == 'self':
                d = stores if isinstance(x.ctx, ast.Store) else loads if isinstance(x.ctx, ast.Load) else None
                if d is not None:
                    d.setdefault(x.attr, []).append(x.lineno)
        for a, ls in stores.items():
            first = min(ls)
            early = [l for l in loads.get(a, []) if l <= first]
            if early:
                hits.append('%s read at line %d before its first write at line %d in %s' % (a, min(early), first, st.name))
    return sorted(set(hits))


def build():
    mods = []
    for root, dirs, files in os.walk(SOLVERS):
        if 'tests' in root:
            continue
        for fn in sorted(files):
            if fn.endswith('.py'):
                r = analyse_module(os.path.join(root, fn))
                if r['globals']:
                    mods.append(r)
    mods.sort(key=lambda m: m['module'])
    cat = C.build()
    classes = []
    for d in cat:
        mut, mdef = class_state(d)
        classes.append({'class': d['class'], 'module': d['module'], 'class_mutables': mut, 'mutable_defaults': mdef, 'instance_carry': instance_carry(d)})
    containers = []
    for root, dirs, files in os.walk(SOLVERS):
        if 'tests' in root:
            continue
        for fn in sorted(files):
            if fn.endswith('.py'):
                h = module_containers(os.path.join(root, fn))
                if h:
                    containers.append({'module': os.path.relpath(os.path.join(root, fn), G.REPO)[:-3].replace(os.sep, '.'), 'hits': h})
    containers.sort(key=lambda m: m['module'])
    return {'modules': mods, 'classes': classes, 'containers': containers}


def coq_access(a):
    k = a[0]
    if k == 'R':
        return 'Rd %s' % q(a[1])
    if k == 'W':
        return 'Wr %s' % q(a[1])
    if k == 'WC':
        return 'WrC %s (%d)%%Z' % (q(a[1]), a[3])
    if k == 'RI':
        return 'RdIf %s (%d)%%Z %s' % (q(a[3][0]), a[3][1], q(a[1]))
    raise ValueError(a)


def q(s):
    return '"%s"%%string' % s.replace('"', "'")


def emit(fp):
    L = ["(* GENERATED by /verif/tools/footprint.py from the source text of /repo/exactpack/solvers -- do not edit. *)",
         "From Coq Require Import List String Bool ZArith.", "From EP Require Import model.History.", "Import ListNotations.", "",
         "(* one entry per function that declares module-level globals (an activation): its access program in evaluation order, with the programs of the helper functions it mentions inlined at the first mention *)",
         "Definition global_programs : list (string * string * list access) := ["]
    items = []
    for m in fp['modules']:
        for f in m['functions']:
            if not f['entry']:
                continue
            prog = '; '.join(coq_access(a) for a in f['inlined'])
            items.append('  (%s, %s, [%s])' % (q(m['module']), q(f['name']), prog))
    L.append(';\n'.join(items))
    L.append("].\n")
    L.append("(* solver classes with class-level mutable objects / mutated mutable default arguments *)")
    L.append("Definition class_shared_state : list (string * list string) := [")
    items = []
    for c in fp['classes']:
        if c['class_mutables'] or c['mutable_defaults']:
            items.append('  (%s, [%s])' % (q(c['module'] + '.' + c['class']), '; '.join(q(x) for x in c['class_mutables'] + c['mutable_defaults'])))
    L.append(';\n'.join(items))
    L.append("].\n")
    L.append("(* module-level mutable containers that some function mutates (caches / registries that survive a call) *)")
    L.append("Definition module_mutated_containers : list (string * list string) := [")
    L.append(';\n'.join('  (%s, [%s])' % (q(m['module']), '; '.join(q(x) for x in m['hits'])) for m in fp.get('containers', [])))
    L.append("].\n")
    L.append("(* solver classes with attributes that a non-constructor method reads before writing them in the same method (state carried between calls) *)")
    L.append("Definition instance_carried_state : list (string * list string) := [")
    L.append(';\n'.join('  (%s, [%s])' % (q(c['module'] + '.' + c['class']), '; '.join(q(x) for x in c['instance_carry'])) for c in fp['classes'] if c.get('instance_carry')))
    L.append("].\n")
    L.append("Definition n_solver_classes : nat := %d." % len(fp['classes']))
    return '\n'.join(L) + '\n'


if __name__ == '__main__':
    fp = build()
    print(json.dumps(fp, indent=1)[:3000])
