#!/usr/bin/env python3
"""C14: correspondence between the real Rod1D / planar-sandwich solvers and gen/Heat.v, decided inside Coq: the
generated series (static part + sum_range over the translated mode functions) is unrolled for a small Nsum and
bounded against the implementation's doubles with Interval."""
import json
import os
from fractions import Fraction
import harness as H
from harness import qlit
from py2coq import coq_num

REAL = r'''
import warnings
from exactpack.solvers.heat import Rod1D, PlanarSandwich, PlanarSandwichHot, PlanarSandwichHalf
CLS = dict(Rod1D=Rod1D, PlanarSandwich=PlanarSandwich, PlanarSandwichHot=PlanarSandwichHot, PlanarSandwichHalf=PlanarSandwichHalf)
def main(payload):
    out = []
    for c in payload:
        try:
            s = CLS[c['class']](**c['params'])
            sol = s(np.array(c['xs'], dtype=float), c['t'])
            out.append([float(v) for v in sol['temperature']])
        except Exception as ex:
            out.append({'error': type(ex).__name__ + ': ' + str(ex)[:200]})
    return out
'''

TACTIC = r"""
Ltac series_unroll :=
  autounfold with epgen;
  repeat rewrite sum_range_0_INR; repeat rewrite sum_range_1_INR;
  cbn [sum_from Nat.sub];
  repeat rewrite altsign_INR;
  cbn [INR pow].
"""


def r4(rng, lo, hi):
    return float('%.4g' % rng.uniform(lo, hi))


def sample(rng, n):
    hj = json.load(open(os.path.join(H.COQ, 'gen', 'Heat.json')))
    rod, sw = hj['rod'], hj['sandwich']
    cases = []
    for _ in range(n):
        kap, L = r4(rng, 0.3, 3), r4(rng, 0.5, 3)
        TL, TR, g1, g2 = (r4(rng, -2, 5) for _ in range(4))
        a1, a2, b1, b2 = (r4(rng, 0.5, 2) for _ in range(4))
        N = rng.choice([3, 5, 6])
        xs = [0.0, r4(rng, 0.1, 0.9) * L, L]
        t = r4(rng, 0.01, 0.3) * L * L / kap
        vals = dict(kappa=kap, L=L, TL=TL, TR=TR, Nsum=N)
        bcs = {'1': dict(alpha1=a1, beta1=0, gamma1=g1, alpha2=a2, beta2=0, gamma2=g2),
               '2': dict(alpha1=0, beta1=b1, gamma1=g1, alpha2=0, beta2=b1, gamma2=g1),
               '3': dict(alpha1=a1, beta1=0, gamma1=g1, alpha2=0, beta2=b2, gamma2=g2),
               '4': dict(alpha1=0, beta1=b1, gamma1=g1, alpha2=a2, beta2=0, gamma2=g2)}
        for K, bc in bcs.items():
            p = dict(vals, **bc)
            args = ' '.join('(INR %d)' % N if a == 'Nsum' else qlit(p[a]) for a in rod['bc'][K]['all_params'])
            cases.append({'class': 'Rod1D', 'params': p, 'xs': xs, 't': t, 'coq': 'rod_bc%s_temperature %s' % (K, args)})
        for pfx, d in sw.items():
            own = {}
            for g in sorted(set(d['gamma'].values())):
                own[g] = r4(rng, -2, 3)
            p = dict(vals, **own)
            args = ' '.join('(INR %d)' % N if a == 'Nsum' else qlit(p[a]) for a in d['params'])
            cases.append({'class': d['class'], 'params': p, 'xs': xs, 't': t, 'coq': '%s_temperature %s' % (pfx, args)})
    return cases


def unit_corr(rng, tier, prop):
    cases = sample(rng, 1 if tier == 'quick' else 6)
    res = H.run_real(REAL, [{k: c[k] for k in ('class', 'params', 'xs', 't')} for c in cases])
    goals, dis = [], []
    for c, r in zip(cases, res):
        if isinstance(r, dict):
            dis.append({'case': {k: c[k] for k in ('class', 'params', 'xs', 't')}, 'real': r, 'why': 'real implementation raised on an input the model admits'})
            continue
        for x, v in zip(c['xs'], r):
            tol = Fraction(1, 10 ** 9) * (abs(Fraction(v)) + 1)
            goals.append('Goal Rabs (%s %s %s - %s) <= %s.\nProof. series_unroll. corr_solve. Qed.' % (c['coq'], qlit(x), qlit(c['t']), qlit(v), coq_num(tol)))
    files = H.write_case_files('%s_heat' % prop, 'lib.Series gen.Heat', goals, per_file=12)
    for fn in files:
        p = os.path.join(H.COQ, fn)
        s = open(p).read().replace('Open Scope R_scope.\n', 'Open Scope R_scope.\n' + TACTIC, 1)
        open(p, 'w').write(s)
    sample_ = {k: cases[0][k] for k in ('class', 'params', 'xs', 't')} if cases else None
    return files, len(goals), dis, sample_
