#!/usr/bin/env python3
"""C20 oracle for solver classes whose constructor / domain guards are outside the translated subset: the documented restrictions,
transcribed by hand from the docstrings and error messages, are compared with what the REAL constructor / call does on
parameter sets placed around every boundary."""
import harness as H

SCRIPT = r'''
import warnings
def main(payload):
    out = []
    for c in payload:
        try:
            with warnings.catch_warnings():
                warnings.simplefilter('ignore')
                if c['what'] == 'kenamond2':
                    from exactpack.solvers.kenamond import Kenamond2
                    try:
                        s = Kenamond2(**c['params'])
                        v = s(np.array(c['pts'], float), 0.0)
                        out.append({'accepted': True, 'finite': bool(np.all(np.isfinite(np.asarray(v['burntime'], float))))})
                    except ValueError as ex:
                        out.append({'accepted': False, 'msg': str(ex)[:120]})
                elif c['what'] == 'piston':
                    from exactpack.solvers.ep_piston import EPpiston
                    s = EPpiston(**c['params'])
                    x = np.linspace(0.0, c['xmax'], 40)
                    res = []
                    for f in c['fracs']:
                        t = f * c['xmax'] / s.wv_el
                        try:
                            sol = s._run(x, t)
                            res.append({'frac': f, 'raised': False, 'finite': bool(np.all(np.isfinite(np.asarray(sol['density'], float))))})
                        except ValueError:
                            res.append({'frac': f, 'raised': True})
                    out.append({'wv_el': float(s.wv_el), 'wv_pl': float(s.wv_pl), 'runs': res})
                elif c['what'] == 'kenamond3':
                    from exactpack.solvers.kenamond import Kenamond3
                    s = Kenamond3(**c['params'])
                    res = []
                    for pt in c['pts']:
                        try:
                            v = s(np.array([pt], float), 0.0)
                            res.append({'raised': False, 'finite': bool(np.all(np.isfinite(np.asarray(v['burntime'], float)))), 'value': float(np.asarray(v['burntime'], float)[0])})
                        except ValueError:
                            res.append({'raised': True})
                    out.append({'runs': res})
                elif c['what'] == 'blake':
                    from exactpack.solvers.blake import Blake
                    try:
                        s = Blake(**c['params'])
                        v = s(np.array([0.15, 0.3, 0.6]), 1.0e-4)
                        out.append({'accepted': True, 'finite': bool(all(np.all(np.isfinite(np.asarray(v[n], float))) for n in v.dtype.names))})
                    except ValueError as ex:
                        out.append({'accepted': False, 'msg': str(ex)[:120]})
                elif c['what'] == 'nan_at_t0':
                    import importlib
                    cls = getattr(importlib.import_module(c['module']), c['class'])
                    s = cls(**c['params'])
                    sol = s(np.array(c['pts'], float), c['t'])
                    bad = [n for n in sol.dtype.names[1:] if np.any(np.isfinite(np.asarray(sol[n], float)))]
                    out.append({'finite_fields': bad})
        except Exception as ex:
            out.append({'error': type(ex).__name__ + ': ' + str(ex)[:200]})
    return out
'''


def k2_spec(P):
    """documented restrictions of Kenamond2 (module docstring and messages)"""
    if P['geometry'] not in (2, 3) or P['R'] <= 0 or P['D1'] <= 0 or P['D2'] <= 0 or P['D1'] < P['D2']:
        return False
    if len(P['dets']) != 4 or any(abs(d) <= P['R'] for d in P['dets']) or len(P['t_d']) != 5:
        return False
    outer = [P['t_d'][0], P['t_d'][1], P['t_d'][3], P['t_d'][4]]
    for t, d in zip(outer, P['dets']):
        if t < P['t_d'][2] + P['R'] * (1 / P['D1'] + 1 / P['D2']) - abs(d) / P['D2']:
            return False
    return True


def cases(rng, n):
    out = []
    for _ in range(n):
        R = round(rng.uniform(1, 4), 3); D1 = round(rng.uniform(1.5, 3), 3); D2 = round(D1 * rng.uniform(0.4, 1.0), 3)
        dets = [round(R * rng.uniform(1.5, 4), 3), round(R * rng.uniform(1.1, 3), 3), -round(R * rng.uniform(1.1, 3), 3), -round(R * rng.uniform(1.5, 4), 3)]
        t3 = rng.choice([0.0, round(rng.uniform(-3, 3), 3), round(rng.uniform(-3, 3), 3)])
        bound = [t3 + R * (1 / D1 + 1 / D2) - abs(d) / D2 for d in dets]
        # outer times placed just above / just below their documented bound, or well clear of it
        tt = []
        for b in bound:
            k = rng.choice(['above', 'above', 'below', 'far'])
            tt.append(round(b + {'above': rng.uniform(0.001, 0.3), 'below': -rng.uniform(0.001, 0.3), 'far': rng.uniform(1, 3)}[k], 4))
        P = {'geometry': rng.choice([2, 3]), 'R': R, 'D1': D1, 'D2': D2, 'dets': dets, 't_d': [tt[0], tt[1], t3, tt[2], tt[3]]}
        g = P['geometry']
        pts = [[round(rng.uniform(-2, 2) * R, 3) for _ in range(g)] for _ in range(3)]
        out.append({'what': 'kenamond2', 'params': P, 'pts': pts, 'expected_ok': k2_spec(P)})
    # Kenamond 3: points strictly inside the inert obstacle (|p| < R, at every depth incl. just inside) are outside the domain; points on or outside it are valid
    import math
    for _ in range(max(2, n // 4)):
        g = rng.choice([2, 3]); R = round(rng.uniform(0.5, 4), 3); D = round(rng.uniform(1, 3), 3)
        xd = [0.0, round(R * rng.uniform(1.2, 2.5), 3)] + ([0.0] if g == 3 else [])
        pts, inside = [], []
        for frac in (0.05, 0.3, 0.6, 0.8, 0.95, 0.999, 1.0005, 1.2, 2.0):
            th = rng.uniform(0, 2 * math.pi); ph = rng.uniform(0.2, 2.9)
            rr = frac * R
            pt = [rr * math.cos(th), rr * math.sin(th)] if g == 2 else [rr * math.sin(ph) * math.cos(th), rr * math.sin(ph) * math.sin(th), rr * math.cos(ph)]
            pts.append(pt); inside.append(frac < 1)
        out.append({'what': 'kenamond3', 'params': {'geometry': g, 'R': R, 'D': D, 'x_d': xd, 't_d': round(rng.uniform(-1, 1), 3)}, 'pts': pts, 'inside': inside})
    # Blake: every pair of moduli must describe a material with positive-definite strain energy (G > 0 and K > 0); K and G are computed here
    # in exact rational arithmetic from the documented relations; pairs are placed exactly on the boundary K = 0 (nu = -1), G = 0 and on either side
    from fractions import Fraction as Fr
    def blake_cases():
        G = Fr(rng.randrange(1, 9)) * 10 ** 9
        for kf in (Fr(0), Fr(-1, 10), Fr(1, 10), Fr(1), Fr(5, 3)):
            K = kf * G
            yield {'shear_mod': float(G), 'long_mod': float(K + Fr(4, 3) * G)}, (G > 0 and K > 0)
            yield {'shear_mod': float(G), 'bulk_mod': float(K)}, (G > 0 and K > 0)
            yield {'shear_mod': float(G), 'lame_mod': float(K - Fr(2, 3) * G)}, (G > 0 and K > 0)
        K = Fr(rng.randrange(1, 9)) * 10 ** 9
        for gf in (Fr(0), Fr(-1, 10), Fr(1, 10), Fr(1)):
            Gs = gf * K
            yield {'bulk_mod': float(K), 'shear_mod': float(Gs)}, (Gs > 0 and K > 0)
            yield {'bulk_mod': float(K), 'lame_mod': float(K - Fr(2, 3) * Gs)}, (Gs > 0 and K > 0)
    def exact_KG(P):
        q = {k: Fr(v) for k, v in P.items()}            # the floats actually passed, exactly
        if 'shear_mod' in q:
            G = q['shear_mod']
            K = q['long_mod'] - Fr(4, 3) * G if 'long_mod' in q else (q['bulk_mod'] if 'bulk_mod' in q else q['lame_mod'] + Fr(2, 3) * G)
        else:
            K = q['bulk_mod']; G = Fr(3, 2) * (K - q['lame_mod'])
        return K, G
    fixed = [({'shear_mod': 3.0e9, 'long_mod': 4.0e9}, False), ({'shear_mod': 6.0e9, 'bulk_mod': 0.0}, False), ({'shear_mod': 3.0e9, 'long_mod': 4.5e9}, True)]
    for P, ok in fixed + list(blake_cases()):
        K, G = exact_KG(P)
        big = max(abs(K), abs(G))
        if (K != 0 and abs(K) < big * Fr(1, 10 ** 6)) or (G != 0 and abs(G) < big * Fr(1, 10 ** 6)):
            continue                                    # the decimal moduli do not represent the boundary exactly: rounding decides, not the guard
        ok = G > 0 and K > 0
        # exactness guard: only cases whose floats represent the rationals exactly enough to decide (all values are multiples of 1e9/3 - check round trip)
        # every modulus that is given must itself be positive ("Specified value of ... is non-positive")
        out.append({'what': 'blake', 'params': P, 'expected_ok': bool(ok) and all(v > 0 for v in P.values())})
    for _ in range(max(1, n // 3)):
        out.append({'what': 'piston', 'params': {}, 'xmax': round(rng.uniform(0.5, 2), 3), 'fracs': [0.5, 0.999, 1.001, 1.05, 1.12, 1.17, 1.3, 2.0]})
    for module, cls, params, pts in (('exactpack.solvers.sedov', 'Sedov', {'geometry': 3}, [0.1, 0.5, 1.2]), ('exactpack.solvers.noh', 'Noh', {}, [0.1, 0.5]),
                                     ('exactpack.solvers.mader', 'Mader', {}, [0.0, 1.0, 2.0]), ('exactpack.solvers.suolson', 'SuOlson', {}, [0.1, 1.0])):
        out.append({'what': 'nan_at_t0', 'module': module, 'class': cls, 'params': params, 'pts': pts, 't': rng.choice([0.0, -0.5])})
    return out


def oracle(rng, tier, reasons):
    cs = cases(rng, (12 if tier == 'quick' else 80) * (2 if reasons else 1))
    res = H.run_real(SCRIPT, cs, timeout=1800)
    fails = []
    for c, r in zip(cs, res):
        if 'error' in r:
            continue
        if c['what'] == 'kenamond2':
            if r['accepted'] != c['expected_ok']:
                fails.append({'solver': 'Kenamond2', 'params': c['params'], 'documented_admissible': c['expected_ok'], 'constructor_accepted': r['accepted'],
                              'message': r.get('msg'), 'why': 'constructor does not enforce exactly the documented ordering of detonation times / radii'})
        elif c['what'] == 'kenamond3':
            for pt, ins, run in zip(c['pts'], c['inside'], r['runs']):
                if ins and not run['raised'] and run.get('finite'):
                    fails.append({'solver': 'Kenamond3', 'params': c['params'], 'point': pt, 'returned_burn_time': run.get('value'),
                                  'why': 'point strictly inside the inert obstacle (|p| < R): documented as outside the domain, a finite burn time was returned'})
                if (not ins) and (run['raised'] or not run.get('finite')):
                    fails.append({'solver': 'Kenamond3', 'params': c['params'], 'point': pt, 'observed': run,
                                  'why': 'valid point outside the obstacle: raised or non-finite'})
        elif c['what'] == 'blake':
            if r['accepted'] != c['expected_ok']:
                fails.append({'solver': 'Blake', 'params': c['params'], 'documented_admissible (G > 0 and K > 0)': c['expected_ok'], 'constructor_accepted': r['accepted'],
                              'message': r.get('msg'), 'why': 'the constructor must reject exactly the moduli pairs without positive-definite strain energy'})
            elif r['accepted'] and not r.get('finite'):
                fails.append({'solver': 'Blake', 'params': c['params'], 'why': 'admissible material, non-finite fields'})
        elif c['what'] == 'piston':
            for run in r['runs']:
                should_raise = run['frac'] > 1.0
                if run['raised'] != should_raise:
                    fails.append({'solver': 'EPpiston', 'xmax': c['xmax'], 't_over_tmax': run['frac'], 'wv_el': r['wv_el'], 'wv_pl': r['wv_pl'], 'raised': run['raised'],
                                  'why': 'request beyond the time at which the elastic wave leaves the grid must raise (documented); before it, it must not'})
        else:
            if r['finite_fields'] and c['class'] not in ('Noh',):
                fails.append({'solver': c['class'], 't': c['t'], 'finite_fields': r['finite_fields'], 'why': 'no valid solution at t <= 0: documented NaN, got finite values'})
    return fails


if __name__ == '__main__':
    import random, sys, json
    for f in oracle(random.Random(int(sys.argv[1]) if len(sys.argv) > 1 else 0), 'quick', None):
        print(json.dumps(f)[:400])
    print('done')
