#!/usr/bin/env python3
"""C10 oracle on the REAL implementation for the self-similar solvers outside the theorems:
Sedov with a power-law ambient density (the similarity image keeps E and rho0 fixed: lengths x tau^(2/(k+2-omega)))
and Guderley (points with equal (Lazarus time)/r^lambda obey the documented power-law prefactors)."""
import harness as H

SCRIPT = r'''
import warnings
def rel(a, b):
    a = np.asarray(a, float); b = np.asarray(b, float)
    m = np.isfinite(a) & np.isfinite(b) & (np.abs(b) > 1e-300)
    return float(np.max(np.abs(a[m] - b[m]) / np.abs(b[m]))) if m.any() else 0.0
def sedov(c):
    from exactpack.solvers.sedov import Sedov
    P = c['params']; k, om = P['geometry'], P['omega']
    s = Sedov(**P)
    tau = c['tau']; ell = tau ** (2.0 / (k + 2.0 - om))
    r = np.array(c['pts'], float)
    a = s(r, c['t']); b = s(ell * r, tau * c['t'])
    out = {}
    out['density'] = rel(b['density'], a['density'] * ell ** (-om))
    out['velocity'] = rel(b['velocity'], a['velocity'] * ell / tau)
    out['pressure'] = rel(b['pressure'], a['pressure'] * ell ** (-om) * (ell / tau) ** 2)
    out['specific_internal_energy'] = rel(b['specific_internal_energy'], a['specific_internal_energy'] * (ell / tau) ** 2)
    return out
def guderley(c):
    from exactpack.solvers.guderley.guderley import Guderley
    from exactpack.solvers.guderley.eexp import eexp
    from exactpack.solvers.guderley.ramsey import get_shock_position
    g, gam = c['geometry'], c['gamma']
    lam = eexp(g, gam); B = get_shock_position(g, gam, lam)
    s = Guderley(geometry=g, gamma=gam, rho0=c['rho0'])
    FC = 0.750024322
    worst = {}
    for xf, kind in c['xs']:
        x = xf * B if kind == 'B' else xf
        r1, r2 = c['r1'], c['r2']
        t1, t2 = FC * (x * r1 ** lam + 1.0), FC * (x * r2 ** lam + 1.0)
        if t1 <= 0 or t2 <= 0:
            continue
        a = s(np.array([r1]), t1); b = s(np.array([r2]), t2)
        f = (r2 / r1) ** (1.0 - lam)
        for name, fac in (('density', 1.0), ('velocity', f), ('sound_speed', f), ('pressure', f * f), ('specific_internal_energy', f * f)):
            worst[name] = max(worst.get(name, 0.0), rel(b[name], np.asarray(a[name]) * fac))
    return worst
def main(payload):
    out = []
    for c in payload:
        try:
            with warnings.catch_warnings():
                warnings.simplefilter('ignore')
                out.append(sedov(c) if c['kind'] == 'sedov' else guderley(c))
        except Exception as ex:
            out.append({'error': type(ex).__name__ + ': ' + str(ex)[:200]})
    return out
'''


def r4(rng, lo, hi):
    return float('%.4g' % rng.uniform(lo, hi))


def cases(rng, tier):
    out = []
    n = 2 if tier == 'quick' else 10
    for _ in range(n):
        k = rng.choice([1, 2, 3])
        out.append({'kind': 'sedov', 'params': {'geometry': k, 'gamma': r4(rng, 1.2, 2.0), 'rho0': r4(rng, 0.5, 2), 'omega': rng.choice([0.0, r4(rng, 0.1, 0.9)]), 'eblast': r4(rng, 0.5, 2)},
                    'pts': sorted(r4(rng, 0.05, 1.6) for _ in range(8)), 't': r4(rng, 0.3, 1.5), 'tau': r4(rng, 0.3, 3)})
    # Guderley with gammas whose similarity exponent is quick to compute (gamma = 1.4 takes a minute per call: thorough tier only)
    gs = [(3, 3.0), (2, 2.0)] if tier == 'quick' else [(3, 3.0), (2, 2.0), (3, 6.0), (3, 1.4)]
    for g, gam in gs:
        out.append({'kind': 'guderley', 'geometry': g, 'gamma': gam, 'rho0': r4(rng, 0.5, 2), 'r1': r4(rng, 0.3, 1.0), 'r2': r4(rng, 1.05, 1.8),
                    'xs': [(-1.4, 'abs'), (-0.6, 'abs'), (0.5, 'B'), (1.3, 'B'), (2.5, 'B')]})
    return out


def oracle(rng, tier, reasons):
    cs = cases(rng, tier)
    res = H.run_real(SCRIPT, cs, timeout=3000)
    fails = []
    for c, r in zip(cs, res):
        if 'error' in r:
            continue
        bad = {k: v for k, v in r.items() if v > 1e-6}
        if bad:
            fails.append({'solver': c['kind'], 'input': c, 'fields_that_do_not_follow_the_similarity_map': bad})
    return fails


if __name__ == '__main__':
    import random, sys
    cs = cases(random.Random(int(sys.argv[1]) if len(sys.argv) > 1 else 0), 'quick')
    for c, r in zip(cs, H.run_real(SCRIPT, cs)):
        print(c['kind'], c.get('params', (c.get('geometry'), c.get('gamma'))), {k: ('%.1e' % v if isinstance(v, float) else v) for k, v in r.items()})
