#!/usr/bin/env python3
"""C18: (a) correspondence of gen/SuOlson.v with the real functions of suolson/timmes.py (dispersion functions, phases,
integrands, the arguments so_wave passes to the transform solutions, the temperature conversion, the way the quadratures are
combined), decided inside Coq; (b) oracle on the REAL SuOlson solver: PDE residuals by finite differences of the u, v implied by
the returned temperatures, Marshak condition, far field, scaling in opacity and boundary temperature, published table entries
reached through alpha."""
import json
import math
import os
from fractions import Fraction
import harness as H
from harness import qlit
from py2coq import coq_num

REAL = r'''
import warnings
from exactpack.solvers.suolson import timmes as T
def main(payload):
    out = []
    for c in payload:
        try:
            with warnings.catch_warnings():
                warnings.simplefilter('ignore')
                if c['what'] == 'funcs':
                    eta, eps = c['eta'], c['eps']
                    o = {k: float(getattr(T, k)(eta, eps)) for k in ('gamma_one', 'gamma_two', 'gamma_three', 'theta_one', 'theta_two', 'theta_three')}
                    T.posx, T.tau, T.epsilon = c['posx'], c['tau'], eps
                    for k in ('upart1', 'upart2', 'vpart1', 'vpart2'):
                        o[k] = float(getattr(T, k)(eta))
                    out.append(o)
                elif c['what'] == 'wave':
                    seen = {}
                    ou, ov = T.usolution, T.vsolution
                    def wu(x, t, e):
                        seen['args'] = [float(x), float(t), float(e)]
                        seen['u'] = float(ou(x, t, e)); return seen['u']
                    def wv(x, t, e, u):
                        seen['vargs'] = [float(x), float(t), float(e), float(u)]
                        seen['v'] = float(ov(x, t, e, u)); return seen['v']
                    T.usolution, T.vsolution = wu, wv
                    try:
                        r = T.so_wave(c['time'], c['zpos'], c['tbc'], c['opac'], c['alpha'])
                    finally:
                        T.usolution, T.vsolution = ou, ov
                    out.append({'ret': [float(z) for z in r], 'seen': seen})
                elif c['what'] == 'combine':
                    # run usolution / vsolution with quad replaced by a recorder that returns fixed numbers
                    import scipy.integrate
                    vals = list(c['vals'])
                    oq = T.quad
                    calls = []
                    def fq(f, a, b, **kw):
                        first = f.__name__ not in calls
                        calls.append(f.__name__)
                        # the first piece of each family carries the whole value, later pieces (if the splitting loop runs) are zero
                        return ((vals[0] if f.__name__.endswith('1') else vals[1]) if first else 0.0, 0.0)
                    T.quad = fq
                    try:
                        u = T.usolution(1e-9, c['tau'], c['eps'])     # tiny x: no oscillation, one quad per family
                        v = T.vsolution(1e-9, c['tau'], c['eps'], c['uans'])
                    finally:
                        T.quad = oq
                    out.append({'u': float(u), 'v': float(v), 'calls': calls})
        except Exception as ex:
            out.append({'error': type(ex).__name__ + ': ' + str(ex)[:200]})
    return out
'''


def r4(rng, lo, hi):
    return float('%.5g' % rng.uniform(lo, hi))


def unit_corr(rng, tier, prop):
    js = json.load(open(os.path.join(H.COQ, 'gen', 'SuOlson.json')))
    n = 6 if tier == 'quick' else 40
    cases = []
    for _ in range(n):
        cases.append({'what': 'funcs', 'eta': r4(rng, 0.02, 0.98), 'eps': r4(rng, 0.05, 3), 'posx': r4(rng, 0.0, 6), 'tau': r4(rng, 0.01, 5)})
    for _ in range(max(2, n // 3)):
        cases.append({'what': 'wave', 'time': r4(rng, 1e-10, 3e-9), 'zpos': r4(rng, 0.05, 2), 'tbc': r4(rng, 200, 3000), 'opac': r4(rng, 0.3, 3),
                      'alpha': 3.02636565993931701e-14 * r4(rng, 0.3, 8)})
        cases.append({'what': 'combine', 'vals': [r4(rng, -1, 1), r4(rng, -1, 1)], 'tau': r4(rng, 0.1, 3), 'eps': r4(rng, 0.1, 2), 'uans': r4(rng, 0, 1)})
    res = H.run_real(REAL, cases)
    goals, dis = [], []

    def goal(nm, env, v, rel=1e-9, absol=Fraction(1, 10 ** 12)):
        if not math.isfinite(v):
            dis.append({'name': nm, 'env': env, 'why': 'real value not finite'})
            return
        args = ' '.join(qlit(env[a]) for a in js[nm]['args'])
        tol = Fraction(rel) * abs(Fraction(v)) + absol
        goals.append('Goal Rabs (%s %s - %s) <= %s.\nProof. autounfold with epgen. minmax_solve. acos_to_atan. corr_solve. Qed.' % (nm, args, qlit(v), coq_num(tol)))
    for c, o in zip(cases, res):
        if 'error' in o:
            dis.append({'case': c, 'real': o, 'why': 'real implementation raised'})
            continue
        if c['what'] == 'funcs':
            env = {'eta': c['eta'], 'epsilon': c['eps'], 'posx': c['posx'], 'tau': c['tau']}
            for k in ('gamma_one', 'gamma_two', 'gamma_three', 'theta_one', 'theta_two', 'theta_three', 'upart1', 'upart2', 'vpart1', 'vpart2'):
                goal('so_' + k, env, o[k], rel=1e-8)
        elif c['what'] == 'wave':
            s = o['seen']
            if s.get('vargs', [None] * 4)[:3] != s.get('args') or abs(s['vargs'][3] - s['u']) > 0:
                dis.append({'case': c, 'seen': s, 'why': 'vsolution is not called with the arguments and result of usolution'})
                continue
            env = {'time': c['time'], 'zpos': c['zpos'], 'trad_bc_ev': c['tbc'], 'opac': c['opac'], 'alpha': c['alpha'], 'uans': s['u'], 'vans': s['v']}
            for nm, v in zip(('so_wave_xpos', 'so_wave_tau', 'so_wave_epsilon'), s['args']):
                goal(nm, env, v, absol=Fraction(0))
            for nm, v in zip(('so_wave_erad', 'so_wave_trad', 'so_wave_trad_ev', 'so_wave_tmat', 'so_wave_tmat_ev'), o['ret']):
                if (nm.startswith('so_wave_tmat') and s['v'] <= 0) or (not nm.startswith('so_wave_tmat') and s['u'] <= 0):
                    continue
                goal(nm, env, v, absol=Fraction(0))
        else:
            if sorted(set(o['calls'])) != ['upart1', 'upart2', 'vpart1', 'vpart2']:
                dis.append({'case': c, 'calls': o['calls'], 'why': 'unexpected quadrature sequence'})
                continue
            env = {'sum1': c['vals'][0], 'sum2': c['vals'][1], 'tau': c['tau'], 'uans': c['uans']}
            goal('so_usolution_combine', env, o['u'])
            goal('so_vsolution_combine', env, o['v'])
    files = H.write_case_files('%s_suolson' % prop, 'lib.AcosAtan gen.SuOlson', goals, per_file=25)
    return files, len(goals), dis, (cases[0] if cases else None)


ORACLE = r'''
import warnings, math
from exactpack.solvers.suolson import SuOlson
CL = 2.99792458e10; SS = 5.67051e-5; A = 4 * SS / CL; RT3 = math.sqrt(3.0)
def uv(s, tb, z, t):
    sol = s(np.atleast_1d(np.asarray(z, float)), t)
    return (np.asarray(sol['temperature_rad'], float) / tb) ** 4, (np.asarray(sol['temperature_mat'], float) / tb) ** 4
def one(c):
    P = c['params']; tb = P.get('trad_bc_ev', 1.0e3); op = P.get('opac', 1.0); al = P.get('alpha', 4 * A)
    s = SuOlson(**P)
    eps = 4 * A / al
    z_of = lambda x: x / (RT3 * op)
    t_of = lambda tau: tau * al / (4 * A * CL * op)
    out = {'eps': eps}
    # PDE residuals at interior points
    worst_u = worst_v = 0.0
    for x, tau in c['points']:
        h = 0.05; dt = 0.02 * tau
        u0, v0 = uv(s, tb, z_of(x), t_of(tau))
        up, vp = uv(s, tb, z_of(x + h), t_of(tau)); um, vm = uv(s, tb, z_of(x - h), t_of(tau))
        ut1, vt1 = uv(s, tb, z_of(x), t_of(tau + dt)); ut0, vt0 = uv(s, tb, z_of(x), t_of(tau - dt))
        u_t = (ut1 - ut0) / (2 * dt); v_t = (vt1 - vt0) / (2 * dt); u_xx = (up - 2 * u0 + um) / h ** 2
        ru = eps * u_t - u_xx - (v0 - u0); rv = v_t - (u0 - v0)
        su = abs(eps * u_t) + abs(u_xx) + abs(v0 - u0) + 1e-4; sv = abs(v_t) + abs(u0 - v0) + 1e-4
        worst_u = max(worst_u, float(abs(ru[0]) / su[0])); worst_v = max(worst_v, float(abs(rv[0]) / sv[0]))
    out['pde_u'] = worst_u; out['pde_v'] = worst_v
    if c.get('fine'):
        # fourth-order central differences (5-point stencils): truncation error ~1e-6, so a residual of 1e-3 is the solver's, not the stencil's
        w4u = w4v = 0.0
        for x, tau in c['points']:
            h = 0.04; dt = 0.03 * tau
            U = {}; V = {}
            for j in (-2, -1, 0, 1, 2):
                U[('x', j)], V[('x', j)] = uv(s, tb, z_of(x + j * h), t_of(tau))
                U[('t', j)], V[('t', j)] = uv(s, tb, z_of(x), t_of(tau + j * dt))
            d1 = lambda F, k_, st: (F[(k_, -2)] - 8 * F[(k_, -1)] + 8 * F[(k_, 1)] - F[(k_, 2)]) / (12 * st)
            u_xx = (-U[('x', -2)] + 16 * U[('x', -1)] - 30 * U[('x', 0)] + 16 * U[('x', 1)] - U[('x', 2)]) / (12 * h * h)
            u_t = d1(U, 't', dt); v_t = d1(V, 't', dt); u0 = U[('x', 0)]; v0 = V[('x', 0)]
            ru = eps * u_t - u_xx - (v0 - u0); rv = v_t - (u0 - v0)
            su = abs(eps * u_t) + abs(u_xx) + abs(v0 - u0) + 1e-4; sv = abs(v_t) + abs(u0 - v0) + 1e-4
            w4u = max(w4u, float(abs(ru[0]) / su[0])); w4v = max(w4v, float(abs(rv[0]) / sv[0]))
        out['pde_u_4th_order'] = w4u; out['pde_v_4th_order'] = w4v
    # Marshak condition at x = 0 (one-sided second-order difference)
    m = 0.0
    for tau in c['taus']:
        h = 0.02
        u0, _ = uv(s, tb, 0.0, t_of(tau)); u1, _ = uv(s, tb, z_of(h), t_of(tau)); u2, _ = uv(s, tb, z_of(2 * h), t_of(tau))
        ux = (-3 * u0 + 4 * u1 - u2) / (2 * h)
        m = max(m, float(abs(u0 - 2 / RT3 * ux - 1.0)[0]))
    out['marshak'] = m
    # far field
    uf, vf = uv(s, tb, z_of(60.0), t_of(1.0))
    out['far_field'] = float(max(abs(uf[0]), abs(vf[0])))
    # scaling in the opacity: T(z, t; k opac) = T(k z, k t; opac)
    k = c['k']
    s2 = SuOlson(**dict(P, opac=op * k))
    zs = np.array([z_of(0.3), z_of(1.0), z_of(2.5)]); tt = t_of(1.0)
    a = s2(zs / k, tt / k); b = s(zs, tt)
    out['opacity_scaling'] = float(max(np.max(np.abs(np.asarray(a[n], float) - np.asarray(b[n], float)) / (np.abs(np.asarray(b[n], float)) + 1e-300)) for n in ('temperature_rad', 'temperature_mat')))
    # boundary temperature: T / T_bc does not depend on T_bc
    s3 = SuOlson(**dict(P, trad_bc_ev=tb * 2.5))
    cc = s3(zs, tt)
    out['boundary_temperature_scaling'] = float(max(np.max(np.abs(np.asarray(cc[n], float) / 2.5 - np.asarray(b[n], float)) / (np.abs(np.asarray(b[n], float)) + 1e-300)) for n in ('temperature_rad', 'temperature_mat')))
    return out
def table(c):
    # entries of the published tables (Su & Olson 1996) for epsilon = 0.1, reached through the public solver with alpha = 4a/0.1
    s = SuOlson(alpha=4 * A / 0.1, opac=c['opac'], trad_bc_ev=c['tb'])
    worst = 0.0
    for x, tau, u_ref, v_ref in c['entries']:
        u, v = uv(s, c['tb'], x / (RT3 * c['opac']), tau * (4 * A / 0.1) / (4 * A * CL * c['opac']))
        worst = max(worst, abs(float(u[0]) - u_ref), abs(float(v[0]) - v_ref))
    return {'table_eps_0p1': worst}
def main(payload):
    out = []
    for c in payload:
        try:
            with warnings.catch_warnings():
                warnings.simplefilter('ignore')
                out.append(table(c) if c.get('what') == 'table' else one(c))
        except Exception as ex:
            import traceback
            out.append({'error': type(ex).__name__ + ': ' + str(ex)[:200], 'tb': traceback.format_exc()[-500:]})
    return out
'''
THRESH = {'pde_u': 2e-2, 'pde_v': 2e-2, 'pde_u_4th_order': 1.5e-4, 'pde_v_4th_order': 1.5e-4, 'marshak': 1e-3, 'far_field': 5e-4, 'opacity_scaling': 1e-6, 'boundary_temperature_scaling': 1e-6, 'table_eps_0p1': 3e-4}
A4 = 3.02636565993931701e-14
TABLE = [(1.0, 1.0, 0.26564, 0.13563), (0.5, 1.0, 0.38541, 0.20925), (0.0, 0.1, 0.43876, 0.03446), (2.5, 1.0, 0.08147, 0.03539), (0.1, 0.3, 0.44289, 0.10124)]


def cases(rng, n):
    out = []
    for i in range(n):
        P = {}
        if i % 3 != 0:
            P = {'trad_bc_ev': r4(rng, 200, 3000), 'opac': r4(rng, 0.3, 3), 'alpha': A4 * r4(rng, 0.3, 8)}
        pts = [[r4(rng, 0.2, 2.5), r4(rng, 0.3, 10)] for _ in range(3)]
        out.append({'params': P, 'points': pts, 'taus': [r4(rng, 0.3, 3), r4(rng, 3, 30)], 'k': r4(rng, 0.4, 2.5)})
    # epsilon > 1 (alpha below 4a): decay rates 1 + 1/(eps eta) above and below 2; points near the wall at moderate tau, fourth-order stencil
    for _ in range(max(1, n // 2)):
        P = {'alpha': A4 / r4(rng, 1.3, 6.0)}
        pts = [[r4(rng, 0.15, 0.8), r4(rng, 0.3, 2.5)] for _ in range(2)]
        out.append({'params': P, 'points': pts, 'taus': [r4(rng, 0.3, 3)], 'k': r4(rng, 0.4, 2.5), 'fine': True})
    out.append({'what': 'table', 'opac': r4(rng, 0.5, 2), 'tb': r4(rng, 300, 2000), 'entries': TABLE})
    return out


def oracle(rng, tier, reasons):
    cs = cases(rng, (2 if tier == 'quick' else 10) * (2 if reasons else 1))
    res = H.run_real(ORACLE, cs, timeout=3000)
    fails = []
    for c, r in zip(cs, res):
        if 'error' in r:
            # every case is a valid request (x >= 0, t > 0, positive opacity / alpha / boundary temperature): an exception is a failure of the solver
            fails.append({'solver': 'SuOlson', 'input': c, 'observed': r, 'why': 'the solver raised on a valid request (e.g. a negative energy density under the fourth root)'})
            continue
        bad = {k: v for k, v in r.items() if k in THRESH and not (v <= THRESH[k])}
        if bad:
            fails.append({'solver': 'SuOlson', 'input': c, 'observed': r, 'exceeds': bad,
                          'why': 'the u, v implied by the returned temperatures do not solve the non-equilibrium Marshak problem (or its documented dimensionalisation)'})
    return fails


if __name__ == '__main__':
    import random, sys
    seed = int(sys.argv[1]) if len(sys.argv) > 1 else 0
    cs = cases(random.Random(seed), 3)
    for c, r in zip(cs, H.run_real(ORACLE, cs, timeout=3000)):
        print(c.get('params', 'table'), {k: ('%.2e' % v if isinstance(v, float) else v) for k, v in r.items()})
