#!/usr/bin/env python3
"""C08 / C10 oracles: evaluate scaled and unscaled problems on the REAL implementation."""
import harness as H

SCRIPT = r'''
import importlib
def get(modname, clsname, params, pts, t):
    cls = getattr(importlib.import_module(modname), clsname)
    s = cls(**params)
    sol = s(np.array(pts, dtype=float), t)
    return {n: np.asarray(sol[n], dtype=float) for n in sol.dtype.names if sol.dtype[n].kind in 'fiu'}
def main(payload):
    out = []
    for c in payload:
        try:
            a = get(*c['a']); b = get(*c['b'])
            bad = {}
            for n, f in c['factors'].items():
                x, y = a[n] * f, b[n]
                sc = np.maximum(np.abs(x), np.abs(y)) + 1e-300
                m = np.isfinite(x) & np.isfinite(y)
                d = float(np.max(np.abs(x - y)[m] / sc[m])) if m.any() else 0.0
                if d > c['tol']:
                    bad[n] = {'max_rel_diff': d, 'expected': [float(v) for v in x[:4]], 'got': [float(v) for v in y[:4]]}
            out.append(bad)
        except Exception as ex:
            out.append({'error': type(ex).__name__ + ': ' + str(ex)[:200]})
    return out
'''


def unit_cases(rng, n):
    out = []
    for _ in range(n):
        mu, ell, tau = (round(10 ** rng.uniform(-2, 2), 4) for _ in range(3))
        g = rng.choice([1, 2, 3]); gam = round(rng.uniform(1.1, 2.5), 4)
        pts = sorted(round(rng.uniform(0.05, 2.0), 5) for _ in range(6)); t = round(rng.uniform(0.1, 1.5), 4)
        spts = [ell * x for x in pts]
        hyd = {'density': mu / ell ** 3, 'velocity': ell / tau, 'pressure': mu / ell / tau ** 2, 'specific_internal_energy': (ell / tau) ** 2}
        u0 = -round(rng.uniform(0.2, 3), 4); rho0 = round(rng.uniform(0.3, 3), 4)
        out.append({'what': 'Noh units', 'a': ['exactpack.solvers.noh.noh1', 'Noh', {'geometry': g, 'gamma': gam, 'u0': u0, 'rho0': rho0}, pts, t],
                    'b': ['exactpack.solvers.noh.noh1', 'Noh', {'geometry': g, 'gamma': gam, 'u0': u0 * ell / tau, 'rho0': rho0 * mu / ell ** 3}, spts, t * tau],
                    'factors': hyd, 'tol': 1e-9, 'scales': [mu, ell, tau]})
        # Noh2 (uniform collapse at t = 1: the time unit is fixed by the problem, mass and length units are free)
        e0 = round(rng.uniform(0.3, 3), 4); t2 = round(rng.uniform(0.05, 0.9), 4)
        hyd2 = {'density': mu / ell ** 3, 'velocity': ell, 'pressure': mu / ell, 'specific_internal_energy': ell ** 2}
        for cls2, mod2 in (('Noh2', 'exactpack.solvers.noh2.noh2'), ('Noh2Cog', 'exactpack.solvers.noh2.noh2_cog')):
            out.append({'what': cls2 + ' units', 'a': [mod2, cls2, {'geometry': g, 'gamma': gam, 'rho0': rho0, 'e0': e0}, pts, t2],
                        'b': [mod2, cls2, {'geometry': g, 'gamma': gam, 'rho0': rho0 * mu / ell ** 3, 'e0': e0 * ell ** 2}, spts, t2],
                        'factors': hyd2, 'tol': 1e-9, 'scales': [mu, ell, 1.0]})
        # ideal-gas Riemann
        P = {'pl': round(rng.uniform(0.3, 3), 4), 'pr': round(rng.uniform(0.3, 3), 4), 'rl': round(rng.uniform(0.3, 3), 4), 'rr': round(rng.uniform(0.3, 3), 4),
             'ul': round(rng.uniform(-1, 1), 4), 'ur': round(rng.uniform(-1, 1), 4), 'gl': gam, 'gr': round(rng.uniform(1.1, 2.5), 4),
             'xmin': -3.0, 'xd0': 0.2, 'xmax': 3.0}
        S = dict(P, pl=P['pl'] * mu / ell / tau ** 2, pr=P['pr'] * mu / ell / tau ** 2, rl=P['rl'] * mu / ell ** 3, rr=P['rr'] * mu / ell ** 3,
                 ul=P['ul'] * ell / tau, ur=P['ur'] * ell / tau, xmin=-3.0 * ell, xd0=0.2 * ell, xmax=3.0 * ell)
        rp = sorted(round(rng.uniform(-1.0, 1.4), 5) for _ in range(7)); tr = round(rng.uniform(0.05, 0.3), 4)
        out.append({'what': 'IGEOS Riemann units', 'a': ['exactpack.solvers.riemann.ep_riemann', 'IGEOS_Solver', P, rp, tr],
                    'b': ['exactpack.solvers.riemann.ep_riemann', 'IGEOS_Solver', S, [ell * x for x in rp], tr * tau],
                    'factors': hyd, 'tol': 1e-5, 'scales': [mu, ell, tau]})
        # Sedov
        eb = round(rng.uniform(0.3, 2.0), 4)
        out.append({'what': 'Sedov units', 'a': ['exactpack.solvers.sedov', 'Sedov', {'geometry': g, 'gamma': gam, 'rho0': rho0, 'eblast': eb}, pts, t],
                    'b': ['exactpack.solvers.sedov', 'Sedov', {'geometry': g, 'gamma': gam, 'rho0': rho0 * mu / ell ** 3,
                                                               'eblast': eb * mu * ell ** 2 / tau ** 2 / ell ** (3 - g)}, spts, t * tau],
                    'factors': hyd, 'tol': 1e-5, 'scales': [mu, ell, tau]})
    return out


def selfsim_cases(rng, n):
    out = []
    one = {'density': 1.0, 'velocity': 1.0, 'pressure': 1.0, 'specific_internal_energy': 1.0}
    for _ in range(n):
        lam = round(10 ** rng.uniform(-1, 1), 4)
        g = rng.choice([1, 2, 3]); gam = round(rng.uniform(1.1, 2.5), 4)
        pts = sorted(round(rng.uniform(0.05, 2.0), 5) for _ in range(6)); t = round(rng.uniform(0.1, 1.5), 4)
        u0 = -round(rng.uniform(0.2, 3), 4); rho0 = round(rng.uniform(0.3, 3), 4)
        for mod, cls, extra in (('exactpack.solvers.noh.noh1', 'Noh', {}), ('exactpack.solvers.cog.cog19', 'Cog19', {'Gamma': 40.0})):
            p = dict({'geometry': g, 'gamma': gam, 'u0': u0, 'rho0': rho0}, **extra)
            out.append({'what': cls + ' self-similarity', 'a': [mod, cls, p, pts, t], 'b': [mod, cls, p, [lam * x for x in pts], lam * t],
                        'factors': one, 'tol': 1e-10, 'scales': [lam]})
        # escape of HE products, region I (2 up + D/2 < x/t < D, t <= ttilde = xtilde / D): depends on x/t only
        D = round(rng.uniform(0.3, 2), 4); up = round(rng.uniform(0.0, 0.2) * D, 4); xt = round(rng.uniform(0.5, 2.5), 4)
        pe = {'D': D, 'rho_0': round(rng.uniform(0.5, 3), 4), 'up': up, 'xtilde': xt, 'xmax': 50.0, 'tmax': 50.0}
        xi = [(2 * up + D / 2) + (D / 2 - 2 * up) * f for f in (0.03, 0.2, 0.5, 0.8, 0.97)]
        t1 = round(rng.uniform(0.05, 0.6), 4) * xt / D; t2 = round(rng.uniform(0.05, 0.99), 4) * xt / D
        one5 = dict(one, sound_speed=1.0)
        out.append({'what': 'EHEP region I self-similarity', 'a': ['exactpack.solvers.ehep', 'EscapeOfHEProducts', pe, [x * t1 for x in xi], t1],
                    'b': ['exactpack.solvers.ehep', 'EscapeOfHEProducts', pe, [x * t2 for x in xi], t2], 'factors': one5, 'tol': 1e-10, 'scales': [t2 / t1]})
        # region I extends beyond ttilde on the slower rays: along x = xi t it lasts until the backward characteristic from the free surface,
        # x = xtilde - (D/2)(t - ttilde), i.e. t < (3/2) xtilde / (xi + D/2) (corner C-D at xi = 2 up + D/2); late points on slow rays
        xs = [(2 * up + D / 2) + (D / 2 - 2 * up) * f for f in (0.02, 0.1, 0.25)]
        tl = 0.96 * 1.5 * xt / (xs[-1] + D / 2); te = round(rng.uniform(0.05, 0.4), 4) * xt / D
        out.append({'what': 'EHEP region I self-similarity (late times on slow rays)', 'a': ['exactpack.solvers.ehep', 'EscapeOfHEProducts', pe, [x * te for x in xs], te],
                    'b': ['exactpack.solvers.ehep', 'EscapeOfHEProducts', pe, [x * tl for x in xs], tl], 'factors': one5, 'tol': 1e-10, 'scales': [tl / te]})
        # Mader: cell averages; the grid (hence the cell size) is scaled with t
        pm = {'p_cj': round(rng.uniform(0.1, 1), 4), 'd_cj': round(rng.uniform(0.3, 1.5), 4), 'gamma': round(rng.uniform(2.2, 3.5), 4),
              'u_piston': round(rng.uniform(0.0, 0.1), 4)}
        tm = round(rng.uniform(1, 8), 4); front = pm['d_cj'] * tm; nx = rng.choice([23, 57, 97])
        xm = [front * (0.02 + 0.96 * k / (nx - 1)) for k in range(nx)]
        out.append({'what': 'Mader self-similarity', 'a': ['exactpack.solvers.mader', 'Mader', pm, xm, tm],
                    'b': ['exactpack.solvers.mader', 'Mader', pm, [lam * x for x in xm], lam * tm],
                    'factors': {'velocity': 1.0, 'pressure': 1.0, 'sound_speed': 1.0, 'density': 1.0, 'xdet': lam}, 'tol': 1e-8, 'scales': [lam]})
    return out


def make(casesfn):
    def oracle(rng, tier, reasons):
        ps = casesfn(rng, 4 if tier == 'quick' else 40)
        res = H.run_real(SCRIPT, ps, timeout=1800)
        fails = []
        for p, r in zip(ps, res):
            if 'error' in r or not r:
                continue
            fails.append({'what': p['what'], 'original': p['a'][:3], 'transformed': p['b'][:3], 'points': p['a'][3], 't': p['a'][4],
                          'scale_factors': p['scales'], 'fields_that_do_not_transform': r})
        return fails
    return oracle
