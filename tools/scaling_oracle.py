#!/usr/bin/env python3
"""C08 / C10 oracles: evaluate scaled and unscaled problems on the REAL implementation."""
import harness as H

SCRIPT = r'''
import importlib
def get(modname, clsname, params, pts, t):
    cls = getattr(importlib.import_module(modname), clsname)
    s = cls(**params)
    sol = s(np.array(pts, dtype=float), t)
    return {n: np.asarray(sol[n], dtype=float) for n in sol.dtype.names if sol.dtype[n].kind in 'fiu'}
def main(payload):
    out = []
    for c in payload:
        try:
            a = get(*c['a']); b = get(*c['b'])
            bad = {}
            for n, f in c['factors'].items():
                x, y = a[n] * f, b[n]
                sc = np.maximum(np.abs(x), np.abs(y)) + 1e-300
                m = np.isfinite(x) & np.isfinite(y)
                d = float(np.max(np.abs(x - y)[m] / sc[m])) if m.any() else 0.0
                if d > c['tol']:
                    bad[n] = {'max_rel_diff': d, 'expected': [float(v) for v in x[:4]], 'got': [float(v) for v in y[:4]]}
            out.append(bad)
        except Exception as ex:
            out.append({'error': type(ex).__name__ + ': ' + str(ex)[:200]})
    return out
'''


def unit_cases(rng, n):
    out = []
    for _ in range(n):
        mu, ell, tau = (round(10 ** rng.uniform(-2, 2), 4) for _ in range(3))
        g = rng.choice([1, 2, 3]); gam = round(rng.uniform(1.1, 2.5), 4)
        pts = sorted(round(rng.uniform(0.05, 2.0), 5) for _ in range(6)); t = round(rng.uniform(0.1, 1.5), 4)
        spts = [ell * x for x in pts]
        hyd = {'density': mu / ell ** 3, 'velocity': ell / tau, 'pressure': mu / ell / tau ** 2, 'specific_internal_energy': (ell / tau) ** 2}
        u0 = -round(rng.uniform(0.2, 3), 4); rho0 = round(rng.uniform(0.3, 3), 4)
        out.append({'what': 'Noh units', 'a': ['exactpack.solvers.noh.noh1', 'Noh', {'geometry': g, 'gamma': gam, 'u0': u0, 'rho0': rho0}, pts, t],
                    'b': ['exactpack.solvers.noh.noh1', 'Noh', {'geometry': g, 'gamma': gam, 'u0': u0 * ell / tau, 'rho0': rho0 * mu / ell ** 3}, spts, t * tau],
                    'factors': hyd, 'tol': 1e-9, 'scales': [mu, ell, tau]})
        # ideal-gas Riemann
        P = {'pl': round(rng.uniform(0.3, 3), 4), 'pr': round(rng.uniform(0.3, 3), 4), 'rl': round(rng.uniform(0.3, 3), 4), 'rr': round(rng.uniform(0.3, 3), 4),
             'ul': round(rng.uniform(-1, 1), 4), 'ur': round(rng.uniform(-1, 1), 4), 'gl': gam, 'gr': round(rng.uniform(1.1, 2.5), 4),
             'xmin': -3.0, 'xd0': 0.2, 'xmax': 3.0}
        S = dict(P, pl=P['pl'] * mu / ell / tau ** 2, pr=P['pr'] * mu / ell / tau ** 2, rl=P['rl'] * mu / ell ** 3, rr=P['rr'] * mu / ell ** 3,
                 ul=P['ul'] * ell / tau, ur=P['ur'] * ell / tau, xmin=-3.0 * ell, xd0=0.2 * ell, xmax=3.0 * ell)
        rp = sorted(round(rng.uniform(-1.0, 1.4), 5) for _ in range(7)); tr = round(rng.uniform(0.05, 0.3), 4)
        out.append({'what': 'IGEOS Riemann units', 'a': ['exactpack.solvers.riemann.ep_riemann', 'IGEOS_Solver', P, rp, tr],
                    'b': ['exactpack.solvers.riemann.ep_riemann', 'IGEOS_Solver', S, [ell * x for x in rp], tr * tau],
                    'factors': hyd, 'tol': 1e-5, 'scales': [mu, ell, tau]})
        # Sedov
        eb = round(rng.uniform(0.3, 2.0), 4)
        out.append({'what': 'Sedov units', 'a': ['exactpack.solvers.sedov', 'Sedov', {'geometry': g, 'gamma': gam, 'rho0': rho0, 'eblast': eb}, pts, t],
                    'b': ['exactpack.solvers.sedov', 'Sedov', {'geometry': g, 'gamma': gam, 'rho0': rho0 * mu / ell ** 3,
                                                               'eblast': eb * mu * ell ** 2 / tau ** 2 / ell ** (3 - g)}, spts, t * tau],
                    'factors': hyd, 'tol': 1e-5, 'scales': [mu, ell, tau]})
    return out


def selfsim_cases(rng, n):
    out = []
    one = {'density': 1.0, 'velocity': 1.0, 'pressure': 1.0, 'specific_internal_energy': 1.0}
    for _ in range(n):
        lam = round(10 ** rng.uniform(-1, 1), 4)
        g = rng.choice([1, 2, 3]); gam = round(rng.uniform(1.1, 2.5), 4)
        pts = sorted(round(rng.uniform(0.05, 2.0), 5) for _ in range(6)); t = round(rng.uniform(0.1, 1.5), 4)
        u0 = -round(rng.uniform(0.2, 3), 4); rho0 = round(rng.uniform(0.3, 3), 4)
        for mod, cls, extra in (('exactpack.solvers.noh.noh1', 'Noh', {}), ('exactpack.solvers.cog.cog19', 'Cog19', {'Gamma': 40.0})):
            p = dict({'geometry': g, 'gamma': gam, 'u0': u0, 'rho0': rho0}, **extra)
            out.append({'what': cls + ' self-similarity', 'a': [mod, cls, p, pts, t], 'b': [mod, cls, p, [lam * x for x in pts], lam * t],
                        'factors': one, 'tol': 1e-10, 'scales': [lam]})
    return out


def make(casesfn):
    def oracle(rng, tier, reasons):
        ps = casesfn(rng, 4 if tier == 'quick' else 40)
        res = H.run_real(SCRIPT, ps, timeout=1800)
        fails = []
        for p, r in zip(ps, res):
            if 'error' in r or not r:
                continue
            fails.append({'what': p['what'], 'original': p['a'][:3], 'transformed': p['b'][:3], 'points': p['a'][3], 't': p['a'][4],
                          'scale_factors': p['scales'], 'fields_that_do_not_transform': r})
        return fails
    return oracle
