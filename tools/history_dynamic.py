#!/usr/bin/env python3
"""C06 dynamic side: random histories of constructions and calls over many solver classes in ONE interpreter,
compared with the same calls in a different history (different order, other solvers constructed and used in
between, module-level globals poisoned with sentinels before each call), plus batch independence
(subset / permutation / duplicates of the requested points)."""
import harness as H

SCRIPT = r'''
import importlib, random, sys, types
F = None
def build(spec):
    mod = importlib.import_module(spec['module'])
    cls = getattr(mod, spec['class'])
    pos = []
    if spec.get('eos'):
        from exactpack.solvers.nohblackboxeos.equations_of_state.eos_library import ideal_gas_eos
        pos = [ideal_gas_eos(spec['eos'])]
    s = cls(*pos, **spec['params'])
    if spec.get('guess'):
        s.set_new_solver_initial_guess(spec['guess'])     # a guess in the basin of the physical root (the default converges to a spurious one)
    return s

def run(spec, s=None):
    s = s or build(spec)
    sol = s(np.array(spec['pts'], dtype=float), spec['t'])
    return {n: [float(v) if not isinstance(v, (str, np.str_)) else str(v) for v in sol[n]] for n in sol.dtype.names}

POISON_MODULES = ['exactpack.solvers.guderley.ramsey', 'exactpack.solvers.guderley.eexp', 'exactpack.solvers.rmtv.timmes',
                  'exactpack.solvers.suolson.timmes']
POISON_NAMES = {'exactpack.solvers.guderley.ramsey': ['V1', 'gamma', 'intno', 'lambda_', 'nu', 'sigma'],
                'exactpack.solvers.guderley.eexp': ['a', 'g', 'n'],
                'exactpack.solvers.rmtv.timmes': ['alpha', 'amu', 'aval', 'beta0', 'bval', 'kappa', 'sigma', 'xgeom', 'xif'],
                'exactpack.solvers.suolson.timmes': ['epsilon', 'jwant', 'posx', 'tau']}
def poison():
    for m in POISON_MODULES:
        if m in sys.modules:
            for nm in POISON_NAMES[m]:
                setattr(sys.modules[m], nm, float('nan'))

def same(a, b):
    if a.keys() != b.keys():
        return False
    for k in a:
        for x, y in zip(a[k], b[k]):
            if isinstance(x, str) or isinstance(y, str):
                if x != y: return False
            elif not (x == y or (x != x and y != y)):
                return False
    return True

def main(payload):
    rng = random.Random(payload['seed'])
    specs = payload['specs']
    out = {'diffs': [], 'errors': []}
    # pass 1: each spec evaluated once, in the given order, fresh objects
    ref = []
    for sp in specs:
        try:
            ref.append(run(sp))
        except Exception as ex:
            ref.append(None); out['errors'].append('%s: %s %s' % (sp['class'], type(ex).__name__, str(ex)[:80]))
    out['ref'] = ref
    if payload.get('ref_only'):
        out['n'] = len(specs)
        return out
    # pass 2: shuffled order, objects constructed up front (so every object lives through the others' calls),
    # globals poisoned before each call, every object called twice (second call after all others)
    order = list(range(len(specs))); rng.shuffle(order)
    objs = {}
    for i in order:
        if ref[i] is None: continue
        try: objs[i] = build(specs[i])
        except Exception as ex: out['errors'].append('pass2 build %s: %s' % (specs[i]['class'], type(ex).__name__))
    for rnd in range(3):
        rng.shuffle(order)
        if rnd >= 0:
            # before every round (also the first: the object's very first request is then a different one) every live object is used for OTHER requests: the same number of points at different places
            # (a different grid of the same shape), reversed order, and a different time; the results are discarded
            for i in order:
                if i not in objs: continue
                sp = specs[i]
                try:
                    pts = sp['pts']
                    if pts and not isinstance(pts[0], (list, tuple)):
                        lo, hi = min(pts), max(pts)
                        other = [lo + (hi - lo) * (0.07 + 0.86 * ((k * 0.618 + 0.31 * rnd) % 1.0)) for k in range(len(pts))]
                        run(dict(sp, pts=other, t=sp['t']), objs[i])
                        run(dict(sp, pts=list(reversed(pts)), t=sp['t'] * (1.0 + 0.21 * rnd) if sp['t'] > 0 else sp['t'] * (1.0 - 0.13 * rnd)), objs[i])
                except Exception:
                    pass
        for i in order:
            if i not in objs: continue
            poison()
            try:
                got = run(specs[i], objs[i])
            except Exception as ex:
                out['diffs'].append({'spec': specs[i], 'why': 'raised %s in a different history: %s' % (type(ex).__name__, str(ex)[:100]), 'round': rnd})
                continue
            if not same(ref[i], got):
                bad = [k for k in ref[i] if ref[i][k] != got[k]]
                out['diffs'].append({'spec': specs[i], 'why': 'value depends on history', 'fields': bad[:3],
                                     'fresh': {k: ref[i][k][:3] for k in bad[:2]}, 'later': {k: got[k][:3] for k in bad[:2]}, 'round': rnd})
    # batch independence for element-wise solvers: subset / duplicates / permutation
    for i, sp in enumerate(specs):
        if ref[i] is None or not sp.get('elementwise'): continue
        n = len(sp['pts'])
        sel = [rng.randrange(n) for _ in range(n + 2)]
        sp2 = dict(sp, pts=[sp['pts'][j] for j in sel])
        try:
            got = run(sp2)
        except Exception as ex:
            out['diffs'].append({'spec': sp2, 'why': 'raised %s for a re-batched request' % type(ex).__name__}); continue
        exp = {k: [ref[i][k][j] for j in sel] for k in ref[i]}
        if not same(exp, got):
            out['diffs'].append({'spec': sp, 'selection': sel, 'why': 'value depends on the other points of the request'})
        # the same points in descending order and with the outermost point first (an early exit or a flag carried through the
        # per-point loop shows only when a far point precedes a near one), and every point in a request of its own
        for sel in (list(range(n - 1, -1, -1)), [n - 1] + list(range(n - 1)), [n - 1, 0, n - 1]):
            try:
                got = run(dict(sp, pts=[sp['pts'][j] for j in sel]))
            except Exception as ex:
                out['diffs'].append({'spec': sp, 'selection': sel, 'why': 'raised %s for a re-ordered request' % type(ex).__name__}); continue
            exp = {k: [ref[i][k][j] for j in sel] for k in ref[i]}
            if not same(exp, got):
                out['diffs'].append({'spec': sp, 'selection': sel, 'why': 'value depends on the order of the points in the request'})
                break
    out['n'] = len(specs)
    return out
'''

E = 'exactpack.solvers.'


def specs(rng, tier):
    P = lambda lo, hi, n=5: sorted(round(rng.uniform(lo, hi), 5) for _ in range(n))
    g = lambda: rng.choice([1, 2, 3])
    gam = lambda: round(rng.uniform(1.2, 2.2), 4)
    out = []
    rep = 2 if tier == 'quick' else 6
    for _ in range(rep):
        out += [
            dict(module=E + 'noh.noh1', **{'class': 'Noh'}, params={'geometry': g(), 'gamma': gam()}, pts=P(0.05, 1.5), t=0.6, elementwise=True),
            dict(module=E + 'noh2.noh2', **{'class': 'Noh2'}, params={'geometry': g(), 'gamma': gam()}, pts=P(0.05, 1.5), t=0.4, elementwise=True),
            dict(module=E + 'cog.cog8', **{'class': 'Cog8'}, params={'geometry': g(), 'gamma': gam()}, pts=P(0.05, 1.5), t=0.7, elementwise=True),
            dict(module=E + 'cog.cog19', **{'class': 'Cog19'}, params={'geometry': g(), 'gamma': gam()}, pts=P(0.05, 1.5), t=0.7, elementwise=True),
            dict(module=E + 'sedov', **{'class': 'Sedov'}, params={'geometry': g(), 'gamma': gam()}, pts=P(0.05, 1.2), t=1.0),
            dict(module=E + 'riemann.ep_riemann', **{'class': 'IGEOS_Solver'}, params={'rl': round(rng.uniform(0.5, 2), 3), 'pr': round(rng.uniform(0.05, 0.5), 3)}, pts=P(0.05, 0.95), t=0.2),
            dict(module=E + 'ehep.ehep', **{'class': 'EscapeOfHEProducts'}, params={}, pts=P(0.0, 1.5), t=1.0, elementwise=True),
            dict(module=E + 'mader.timmes', **{'class': 'Mader'}, params={}, pts=P(0.0, 5.0), t=6.25e-6),
            dict(module=E + 'blake.blake', **{'class': 'Blake'}, params={}, pts=P(0.1, 1.0), t=1.6e-4, elementwise=True),
            dict(module=E + 'rmtv.rmtv', **{'class': 'Rmtv'}, params={}, pts=P(0.05, 1.2), t=0.0511, elementwise=True),
            dict(module=E + 'suolson.suolson', **{'class': 'SuOlson'}, params={}, pts=P(0.1, 5.0, 3), t=1.0e-9, elementwise=True),
            dict(module=E + 'heat.rod1d', **{'class': 'Rod1D'}, params={}, pts=P(0.05, 0.95), t=0.05, elementwise=True),
            dict(module=E + 'kenamond.kenamond2', **{'class': 'Kenamond2'}, params={}, pts=[[round(rng.uniform(-8, 8), 3), round(rng.uniform(-8, 8), 3)] for _ in range(5)], t=0.0, elementwise=True),
            dict(module=E + 'sdrz.sdrz', **{'class': 'SteadyDetonationReactionZone'}, params={}, pts=P(0.0, 0.01), t=1.0e-6),
            dict(module=E + 'nohblackboxeos.blackboxnoh', **{'class': 'SphericalNohBlackBox'}, params={}, eos=gam(), guess=[60.0, 0.5, 0.3], pts=P(0.05, 1.0), t=0.6),
            dict(module=E + 'nohblackboxeos.blackboxnoh', **{'class': 'PlanarNohBlackBox'}, params={}, eos=gam(), guess=[5.0, 0.5, 0.25], pts=P(0.05, 1.0), t=0.6),
        ]
    # twins: for every class a second instance that shares some parameters with the first and differs in one (another geometry, or one
    # numeric parameter changed) - a cache keyed on part of the parameters is then exercised with a colliding key
    twins = []
    seen_cls = set()
    for sp in out:
        key = sp['class']
        if key in seen_cls:
            continue
        seen_cls.add(key)
        PP = dict(sp['params'])
        if 'geometry' in PP:
            PP['geometry'] = {1: 2, 2: 3, 3: 2}[PP['geometry']]
            twins.append(dict(sp, params=PP))
    # Su-Olson: a second parameter set whose dimensionless coordinates (x, tau) coincide bit for bit with the first one's while epsilon = 4a/alpha
    # differs (alpha and t both scaled by 8): a cache of the dimensionless solution keyed on (x, tau) alone then collides
    for sp in out:
        if sp['class'] == 'SuOlson' and not sp['params']:
            twins.append(dict(sp, params={'alpha': 8 * 3.02636565993931701e-14}, t=8 * sp['t']))
            break
    gg = 3.0          # eexp's root search takes minutes for gamma = 5/3; 0.3 s for 3.0
    for geo in (2, 3):
        twins.append(dict(module=E + 'guderley', **{'class': 'Guderley'}, params={'geometry': geo, 'gamma': gg, 'rho0': 1.0}, pts=P(0.2, 2.5, 4), t=-0.7))
    out += twins
    rng.shuffle(out)
    return out


def run(rng, tier):
    sp = specs(rng, tier)
    r = H.run_real(SCRIPT, {'seed': rng.randrange(10 ** 6), 'specs': sp}, timeout=3000)
    # the fresh evaluations of pass 1 themselves share one interpreter: a second process evaluates them in the reverse order, so a
    # cache keyed on part of the parameters is filled by the other twin first; the two sets of "fresh" values must agree
    r2 = H.run_real(SCRIPT, {'seed': 1, 'specs': list(reversed(sp)), 'ref_only': True}, timeout=3000)
    a, b = r.get('ref', []), list(reversed(r2.get('ref', [])))
    for spec, x, y in zip(sp, a, b):
        if x is None or y is None:
            continue
        if x != y and not all(_same(x[k], y[k]) for k in x):
            bad = [k for k in x if not _same(x[k], y.get(k, []))]
            r['diffs'].append({'spec': spec, 'why': 'value depends on which other solvers were evaluated before it in the same process', 'fields': bad[:3],
                               'first_order': {k: x[k][:3] for k in bad[:2]}, 'reverse_order': {k: y[k][:3] for k in bad[:2]}})
    return r


def _same(u, v):
    if len(u) != len(v):
        return False
    for p_, q_ in zip(u, v):
        if isinstance(p_, str) or isinstance(q_, str):
            if p_ != q_:
                return False
        elif not (p_ == q_ or (p_ != p_ and q_ != q_)):
            return False
    return True
