#!/usr/bin/env python3
"""correspondence of gen/Ehep.v with the real EscapeOfHEProducts solver: for points inside each of the regions I-V (the region label is read
from the returned 'region' field) the generated region formulas reproduce the returned sound speed, velocity, pressure, density and energy"""
import json
import os
from fractions import Fraction
import harness as H
from harness import qlit
from py2coq import coq_num

REAL = r'''
import warnings
from exactpack.solvers.ehep import EscapeOfHEProducts
def main(payload):
    out = []
    for c in payload:
        try:
            with warnings.catch_warnings():
                warnings.simplefilter('ignore')
                s = EscapeOfHEProducts(**c['params'])
                sol = s(np.array(c['xs'], float), c['t'])
                out.append({'ttilde': float(s.ttilde), 'region': [str(v) for v in sol['region']],
                            'fields': {n: [float(v) for v in sol[n]] for n in ('density', 'pressure', 'specific_internal_energy', 'sound_speed', 'velocity')}})
        except Exception as ex:
            out.append({'error': type(ex).__name__ + ': ' + str(ex)[:200]})
    return out
'''


def unit_corr(rng, tier, prop):
    js = json.load(open(os.path.join(H.COQ, 'gen', 'Ehep.json')))
    n = 4 if tier == 'quick' else 30
    cases = []
    for _ in range(n):
        D = float('%.4g' % rng.uniform(0.4, 2.0))
        P = {'D': D, 'rho_0': float('%.4g' % rng.uniform(0.5, 3)), 'up': float('%.4g' % (rng.uniform(0.0, 0.2) * D)), 'xtilde': float('%.4g' % rng.uniform(0.5, 1.5)),
             'xmax': 10.0, 'tmax': 10.0}
        t = float('%.4g' % (P['xtilde'] / D * rng.choice([rng.uniform(0.3, 0.95), rng.uniform(1.1, 2.0), rng.uniform(2.0, 4.0)])))
        xs = sorted(float('%.5g' % rng.uniform(-0.3 * D * t, 1.05 * D * t)) for _ in range(8))
        cases.append({'params': P, 't': t, 'xs': xs})
    res = H.run_real(REAL, cases)
    goals, dis, hit = [], [], {}
    for c, o in zip(cases, res):
        if 'error' in o:
            dis.append({'case': c, 'real': o, 'why': 'real implementation raised'})
            continue
        for i, x in enumerate(c['xs']):
            reg = o['region'][i]
            if reg not in ('I', 'II', 'III', 'IV', 'V'):
                continue
            hit[reg] = hit.get(reg, 0) + 1
            env = dict(c['params'], x=x, t=c['t'], ttilde=o['ttilde'], gamma=3.0)
            for k, fld in (('cs', 'sound_speed'), ('u', 'velocity'), ('p', 'pressure'), ('rho', 'density')):
                nm = 'ehep_%s_%s' % (reg, k)
                v = o['fields'][fld][i]
                args = ' '.join(qlit(env[a]) for a in js[nm]['args'])
                tol = Fraction(1, 10 ** 9) * abs(Fraction(v)) + Fraction(1, 10 ** 12)
                goals.append('Goal Rabs (%s %s - %s) <= %s.\nProof. autounfold with epgen. corr_solve. Qed.' % (nm, args, qlit(v), coq_num(tol)))
            if o['fields']['density'][i] != 0:
                env2 = dict(env, p=o['fields']['pressure'][i], rho=o['fields']['density'][i])
                v = o['fields']['specific_internal_energy'][i]
                args = ' '.join(qlit(env2[a]) for a in js['ehep_sie']['args'])
                goals.append('Goal Rabs (ehep_sie %s - %s) <= %s.\nProof. autounfold with epgen. corr_solve. Qed.' % (args, qlit(v), coq_num(Fraction(1, 10 ** 9) * abs(Fraction(v)) + Fraction(1, 10 ** 12))))
        args = ' '.join(qlit(dict(c['params'])[a]) for a in js['ehep_ttilde']['args'])
        goals.append('Goal Rabs (ehep_ttilde %s - %s) <= %s.\nProof. autounfold with epgen. corr_solve. Qed.' % (args, qlit(o['ttilde']), coq_num(Fraction(1, 10 ** 12))))
    files = H.write_case_files('%s_ehep' % prop, 'gen.Ehep', goals, per_file=40)
    return files, len(goals), dis, (dict(cases[0], regions_hit=hit) if cases else None)


ORACLE = r'''
import warnings
from exactpack.solvers.ehep import EscapeOfHEProducts
def main(payload):
    out = []
    for c in payload:
        try:
            with warnings.catch_warnings():
                warnings.simplefilter('ignore')
                s = EscapeOfHEProducts(**c['params'])
                res = []
                for x, t in c['pts']:
                    h = 1e-4 * (abs(x) + c['params']['D'] * t); k = 1e-4 * t
                    def F(xx, tt):
                        sol = s(np.array([xx]), tt)
                        return str(sol['region'][0]), float(sol['density'][0]), float(sol['velocity'][0]), float(sol['pressure'][0]), float(sol['specific_internal_energy'][0]), float(sol['sound_speed'][0])
                    c0 = F(x, t); xp = F(x + h, t); xm = F(x - h, t); tp = F(x, t + k); tm = F(x, t - k)
                    if len({c0[0], xp[0], xm[0], tp[0], tm[0]}) != 1 or c0[0] not in ('I', 'II', 'III', 'IV', 'V') or c0[1] <= 0:
                        continue
                    reg, rho, u, p, e, cs = c0
                    d = lambda a, b, step, i: (a[i] - b[i]) / (2 * step)
                    rho_t, rho_x, u_t, u_x, p_x, e_t, e_x = d(tp, tm, k, 1), d(xp, xm, h, 1), d(tp, tm, k, 2), d(xp, xm, h, 2), d(xp, xm, h, 3), d(tp, tm, k, 4), d(xp, xm, h, 4)
                    mass = rho_t + u * rho_x + rho * u_x
                    mom = u_t + u * u_x + p_x / rho
                    en = e_t + u * e_x + p / rho * u_x
                    sc = lambda *a: sum(abs(z) for z in a) + 1e-300
                    res.append({'x': x, 't': t, 'region': reg,
                                'mass': abs(mass) / sc(rho_t, u * rho_x, rho * u_x, rho / t), 'momentum': abs(mom) / sc(u_t, u * u_x, p_x / rho, cs / t),
                                'energy': abs(en) / sc(e_t, u * e_x, p / rho * u_x, e / t),
                                'eos': abs(p - 2.0 * rho * e) / (abs(p) + 1e-300), 'sound': abs(cs * cs - 3.0 * p / rho) / (cs * cs + 1e-300)})
                out.append(res)
        except Exception as ex:
            out.append({'error': type(ex).__name__ + ': ' + str(ex)[:200]})
    return out
'''


def oracle(rng, tier, reasons):
    n = (6 if tier == 'quick' else 50) * (2 if reasons else 1)
    cases = []
    for _ in range(n):
        D = float('%.4g' % rng.uniform(0.4, 2.0))
        P = {'D': D, 'rho_0': float('%.4g' % rng.uniform(0.5, 3)), 'up': float('%.4g' % (rng.uniform(0.0, 0.2) * D)), 'xtilde': float('%.4g' % rng.uniform(0.5, 1.5)),
             'xmax': 10.0, 'tmax': 10.0}
        pts = []
        for _k in range(8):
            t = P['xtilde'] / D * rng.choice([rng.uniform(0.3, 0.95), rng.uniform(1.1, 2.0), rng.uniform(2.0, 4.0)])
            pts.append([float('%.6g' % rng.uniform(-0.3 * D * t, 1.0 * D * t)), float('%.6g' % t)])
        cases.append({'params': P, 'pts': pts})
    res = H.run_real(ORACLE, cases, timeout=1800)
    fails = []
    for c, r in zip(cases, res):
        if isinstance(r, dict):
            continue
        for q in r:
            bad = {k: q[k] for k in ('mass', 'momentum', 'energy', 'eos', 'sound') if not (q[k] <= (1e-9 if k in ('eos', 'sound') else 1e-4))}
            if bad:
                fails.append({'solver': 'EscapeOfHEProducts', 'params': c['params'], 'x': q['x'], 't': q['t'], 'region': q['region'], 'normalised_residuals': bad,
                              'why': 'finite-difference residual of the planar Euler equations / EOS inside a region'})
    return fails
