#!/usr/bin/env python3
"""Python mirror of coq/spec/Restrictions.v, used ONLY by the failing-input search of C20 (when a guard theorem
no longer checks): documented restriction -> bool."""
import math

g123 = lambda g: g in (1, 2, 3)
g23 = lambda g: g in (2, 3)

def _cog14_ok(p):
    k = p['geometry'] - 1.0
    b = (k - 1 - p['alpha'] * k) / (2 + p['alpha'] - 2 * (p['beta'] + 4))
    return b != k and b / (k - b) > 0


DOC_OK = {
    'Noh': lambda p: g123(p['geometry']) and p['u0'] < 0,
    'Noh2': lambda p: g123(p['geometry']),
    'Cog13': lambda p: g123(p['geometry']) and p['gamma'] != 1,
    'Cog14': lambda p: g123(p['geometry']) and 2 + p['alpha'] - 2 * (p['beta'] + 4) != 0 and _cog14_ok(p),
    'Cog16': lambda p: g23(p['geometry']) and p['geometry'] - 1 != p['b'],
    'Cog18': lambda p: g123(p['geometry']) and p['alpha'] != 0,
    'Cog19': lambda p: g123(p['geometry']) and p['u0'] < 0,
    'Cog20': lambda p: g123(p['geometry']) and p['a'] != 0,
    'Cog10': lambda p: g23(p['geometry']), 'Cog12': lambda p: g23(p['geometry']),
    'EscapeOfHEProducts': lambda p: p['geometry'] == 1 and p['gamma'] == 3 and p['D'] > 0 and p['rho_0'] > 0 and 0 <= p['up'] < p['D'] / (p['gamma'] + 1)
        and 0 < p['xtilde'] <= p['xmax'] and p['tmax'] > 0,
    'SteadyDetonationReactionZone': lambda p: p['geometry'] == 1 and p['D'] > 0 and p['rho_0'] > 0 and p['gamma'] > 0,
    'CylindricalExpansion': lambda p: p['geometry'] == 2 and 0 < p['r_1'] < p['r_2'] and p['D_CJ_1'] > 0 and p['D_CJ_2'] > 0 and p['alpha_1'] >= 0 and p['alpha_2'] >= 0,
    'RateStick': lambda p: p['geometry'] in (1, 2) and p['R'] > 0 and 0 < p['omega_c'] < math.pi / 2 and p['D_CJ'] > 0 and p['alpha'] >= 0 and p['IC'] in (1, 2, 3)
        and (p['IC'] != 1 or p['r_d'] >= p['R'] / math.cos(p['omega_c'])) and p['t_f'] > 0 and p['xnodes'] > 0 and p['ynodes'] > 0,
    'ExplosiveArc': lambda p: p['geometry'] == 1 and 0 < p['r_1'] < p['r_2'] and 0 < p['omega_in'] < math.pi / 2 and p['omega_in'] <= p['omega_out'] <= math.pi / 2
        and p['x_d'] < 0 and p['D_CJ'] > 0 and p['alpha'] >= 0 and p['t_f'] > 0 and p['xnodes'] > 0 and p['ynodes'] > 0,
}
for _i in (1, 2, 3, 4, 6, 7, 8, 9, 11, 17):
    DOC_OK['Cog%d' % _i] = lambda p: g123(p['geometry'])
