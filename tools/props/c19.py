"""C19 - 2D steady Riemann: oblique-shock / Prandtl-Meyer relations; balanced slip line."""
import json
import flow
import harness as H
import riemann2d_corr as RC

PM_REPLAY = r'''
from exactpack.solvers.riemann2D_2section_steadystate.riemann2D_2section_steadystate import SetupRiemannProblem
def main(payload):
    prob = SetupRiemannProblem([1., 1., 2.4, 0., 1.4], [0.25, 0.5, 7.0, 0., 1.4])
    M, g = 2.0, 1.4
    coded = float(prob.PrandtlMeyer_function(M, g))
    true = float(np.sqrt((g + 1) / (g - 1)) * np.arctan(np.sqrt((g - 1) / (g + 1) * (M * M - 1))) - np.arctan(np.sqrt(M * M - 1)))
    return {'M': M, 'gamma': g, 'PrandtlMeyer_function': coded, 'prandtl_meyer_angle': true}
'''
WHAT = ('PrandtlMeyer_function(M, g) subtracts arctan(M^2-1) instead of arctan(sqrt(M^2-1)): 0.2586 rad at M=2, g=1.4 instead of 0.4604 '
        '(value pinned by test_PrandtlMeyer_function); every expansion fan therefore turns the flow by the wrong angle')


def replay_pm():
    r = H.run_real(PM_REPLAY, {})
    return r if abs(r['PrandtlMeyer_function'] - r['prandtl_meyer_angle']) > 1e-6 else None


def known_ids():
    return set(k['id'] for k in flow.load_known('C19'))


def oracle(rng, tier, reasons):
    fails, _ = RC.run(rng, tier)
    if 'prandtl-meyer-arctan' in known_ids():
        fails = [f for f in fails if f['check'] != 'fan_turning_vs_prandtl_meyer']
    return fails


UNITS = [
    flow.Unit('state-functions', groups=['riemann2d'], props=['props/C19_riemann2d.v'], custom_corr=RC.unit_corr, oracle=oracle,
              findings=[dict(id='prandtl-meyer-arctan', refuted='props/C19_pm_refuted.v', pending=None, what=WHAT, replay=replay_pm)]),
    flow.Unit('solver-real-code', groups=[], props=[], oracle=oracle, always_oracle=True,
              note='slip-line balance, jump conditions across the reported shock lines, isentropic / isenthalpic fans and mutual consistency of the returned '
                   'fields, on the real solver for random top/bottom states with non-zero and unequal flow angles and unequal gammas (the intersection of the '
                   'pressure-deflection curves uses interp / bisect / fsolve: class NU)'),
]


def run(report, tier, rng):
    report.assumptions += [
        'closed-form state functions (oblique shock and fan parameterised by the downstream pressure, Prandtl-Meyer function, theta-beta-M relation) are regenerated '
        'from the source; the curve intersection (interp, bisect, fsolve) and the assignment of states to polar angles are outside the theorems',
        'the reference Prandtl-Meyer function of coq/proofs/C19_riemann2d.v is validated by its defining differential relation (theorem prandtl_meyer_ode)',
        'location of the states inside a fan (polar angle -> state) is not checked: the property constrains the states, not where they are placed',
    ]
    flow.run_units(report, UNITS, tier, rng)


def replay(path):
    print(json.dumps(json.load(open(path)), indent=1)[:4000])
    return 0
