"""C08 - dimensional consistency: a change of units in gives the same change out."""
import json
import flow
import harness as H
import scaling_oracle as SO
import riemann_corr as RC
import units_oracle as UO
import heat_corr as HC
from props import c01

UNITS = [
    flow.Unit('noh-noh2', groups=['noh', 'noh2'], props=['props/C08_noh.v'],
              corr=[dict(gen='Noh1', pfx='noh', n=4, spec=c01.NOHSPEC), dict(gen='Noh2', pfx='noh2', n=4, spec=c01.G, rt=c01.noh2_rt)],
              oracle=SO.make(SO.unit_cases)),
    flow.Unit('riemann-igeos', groups=['riemann'], props=['props/C08_riemann.v'], custom_corr=RC.unit_corr,
              oracle=SO.make(SO.unit_cases)),
    flow.Unit('heat-rod', groups=['heat'], props=['props/C08_heat.v'], custom_corr=HC.unit_corr,
              oracle=lambda rng, tier, reasons: UO.oracle(rng, tier, reasons, only=('Rod1D-BC1', 'Rod1D-BC3', 'Rod1D-BC4', 'PlanarSandwich', 'PlanarSandwichHot', 'PlanarSandwichHalf'))),
    flow.Unit('all-solvers-units', groups=[], props=[], oracle=UO.oracle, always_oracle=True,
              findings=[dict(id='geneos-absolute-tolerances', refuted=None, pending=None, replay=UO.replay_geneos,
                             what='GenEOS_Solver is not invariant under a change to units in which densities are ~1e-11: absolute ODE / bisect tolerances (Sod problem, mass x395, '
                                  'length x24300, time x94900: fields off by 55-100 %)')],
              note='change of units on the real code for Sedov, EHEP, Mader, Kenamond 1-3, DSD cylindrical expansion, Blake, EP piston (3 models), heat rod '
                   'family, Hutchens 1 and the general-EOS Riemann driver; 40 % of the unit changes use factors 1e-5..1e5 per dimension (hidden dimensional constants); dimension tables in tools/units_oracle.py (Guderley and the Coggeshall family: C10 / C01)'),
]


def run(report, tier, rng):
    report.assumptions += ['absolute tolerances inside SciPy root finders are not scale free: a floating-point effect outside the real model (exercised by the oracle only)']
    flow.run_units(report, UNITS, tier, rng)


def replay(path):
    print(json.dumps(json.load(open(path)), indent=1)[:4000])
    return 0
