"""C04 - 1-D Riemann solutions conserve mass, momentum and energy in integral form."""
import json
import flow
import harness as H
import riemann_corr as RC
import riemann_oracles as RO


def gen_oracle(rng, tier, reasons):
    # general-EOS solver: P-U curves from ODE integration and table interpolation (class NU); its own conservation error on the unchanged
    # tree is up to 5.4e-3 (measured over 84 problems; 95 % are below 1.5e-3), so defects above 1.2e-2 are reported
    n = 6 if tier == 'quick' else 30
    cases = [{'what': 'cons', 'params': P, 't': t, 'kind': 'gen'} for P, t in RO._problems(rng, n)]
    res = H.run_real(RO.SCRIPT, cases, timeout=3000)
    fails = []
    for c, o in zip(cases, res):
        if 'error' in o:
            continue
        if max(abs(z) for z in o['defect']) > 1.2e-2:
            fails.append({'solver': 'GenEOS_Solver', 'params': c['params'], 't': c['t'], 'pattern': o['type'], 'window': o['window'],
                          'integral(mass,momentum,energy)': o['integral'], 'initial_plus_t_times_flux_difference': o['expected'],
                          'normalised_defect': o['defect']})
    # the same left / right states under two equations of state in one process: the integrals of a problem must not depend on whether a problem
    # with the same states and ANOTHER EOS (JWL <-> ideal gas) was solved before it (a table or cache keyed on the states alone would be reused)
    Q = {'xmin': 0.0, 'xd0': 50.0, 'xmax': 100.0, 'rl': 1.7, 'ul': round(rng.uniform(0.0, 0.3), 3), 'pl': 10.0, 'gl': 1.25,
         'rr': 1.0, 'ur': -round(rng.uniform(0.0, 0.2), 3), 'pr': 0.5, 'gr': 1.25}
    J = dict(Q, A=8.545, B=0.205, R1=4.6, R2=1.35, r0=1.84, e0=0.0, problem='JWL')
    t = 12.0
    fresh = H.run_real(RO.SCRIPT, [{'what': 'cons', 'params': Q, 't': t, 'kind': 'gen'}], timeout=3000)[0]
    after = H.run_real(RO.SCRIPT, [{'what': 'cons', 'params': Q, 't': t, 'kind': 'gen', 'before': J}], timeout=3000)[0]
    if 'error' not in fresh and 'error' not in after:
        rel = max(abs(a - b) / (abs(a) + abs(b) + 1e-300) for a, b in zip(fresh['integral'], after['integral']))
        if rel > 1e-7:
            fails.append({'solver': 'GenEOS_Solver', 'params': Q, 't': t, 'history': 'the same states were solved with the JWL EOS first in the same process: ' + json.dumps(J),
                          'integral_fresh_process': fresh['integral'], 'integral_after_JWL_solve': after['integral'], 'expected': fresh['expected'],
                          'normalised_defect_fresh': fresh['defect'], 'normalised_defect_after': after['defect'],
                          'why': 'the conserved integrals of the returned solution change by %.2e (relative) with the history of the process; at most one of the two can equal initial data + t x flux difference' % rel})
    return fails


def ig_oracle(rng, tier, reasons):
    return RO.cons_oracle(rng, tier, reasons)


UNITS = [
    flow.Unit('riemann-igeos', groups=['riemann'], props=['props/C04_riemann.v'], custom_corr=RC.unit_corr_c04, oracle=ig_oracle,
              note='theorem igeos_conservation: for each of the four wave patterns, every left/right state, every exact root px of the pattern\'s '
                   'generated *_call equation (fan sides: px <= p0), every xd0, t > 0 and window containing the waves, the three conserved densities formed '
                   'from the fields of the driver model integrate to initial data + t * flux difference; the model (pattern chain, star states, wave '
                   'positions, region overwriting) is tied to RiemannIGEOS.driver by in-Coq correspondence goals on random problems, including px <= p0 on fan sides'),
    flow.Unit('igeos-real-code', groups=[], props=[], oracle=ig_oracle, always_oracle=True,
              note='piecewise Simpson integration of the fields returned by IGEOS_Solver between the reported wave positions (bisect tolerance, '
                   'internal grid and np.interp back-interpolation are outside the theorem)'),
    flow.Unit('geneos-real-code', groups=[], props=[], oracle=gen_oracle, always_oracle=True,
              note='general-EOS solver (ODE-integrated P-U curves, interpolation tables, bisect: class NU): conservation oracle only, threshold 1.2e-2 '
                   '(its own error on the unchanged tree is up to 1.2e-3); ideal-gas EOS data with unequal gammas; JWL data not exercised'),
]


def run(report, tier, rng):
    report.assumptions += [
        'real-number semantics of the generated wave functions (riemann/utils.py) and of the hand model of RiemannIGEOS.driver (coq/model/RiemannIG.v)',
        'the star pressure is an exact root of the pattern equation in the theorem; SciPy bisect returns it to xtol=1e-12 (residual bounded in the correspondence goals)',
        'fan-side hypothesis px <= p0 is what the Gottlieb-Groth classification is meant to guarantee; it is checked on every correspondence case, not proved from the classification',
        'general-EOS solver: no theorem (numerical P-U curves); oracle on the real code only',
    ]
    flow.run_units(report, UNITS, tier, rng)


def replay(path):
    print(json.dumps(json.load(open(path)), indent=1)[:4000])
    return 0
