"""C04 - 1-D Riemann solutions conserve mass, momentum and energy in integral form."""
import json
import flow
import harness as H
import riemann_corr as RC
import riemann_oracles as RO


def gen_oracle(rng, tier, reasons):
    # general-EOS solver: P-U curves from ODE integration and table interpolation (class NU); its own conservation error on the unchanged
    # tree is up to 5.4e-3 (measured over 84 problems; 95 % are below 1.5e-3), so defects above 1.2e-2 are reported
    n = 6 if tier == 'quick' else 30
    cases = [{'what': 'cons', 'params': P, 't': t, 'kind': 'gen'} for P, t in RO._problems(rng, n)]
    res = H.run_real(RO.SCRIPT, cases, timeout=3000)
    fails = []
    for c, o in zip(cases, res):
        if 'error' in o:
            continue
        if max(abs(z) for z in o['defect']) > 1.2e-2:
            fails.append({'solver': 'GenEOS_Solver', 'params': c['params'], 't': c['t'], 'pattern': o['type'], 'window': o['window'],
                          'integral(mass,momentum,energy)': o['integral'], 'initial_plus_t_times_flux_difference': o['expected'],
                          'normalised_defect': o['defect']})
    return fails


def ig_oracle(rng, tier, reasons):
    return RO.cons_oracle(rng, tier, reasons)


UNITS = [
    flow.Unit('riemann-igeos', groups=['riemann'], props=['props/C04_riemann.v'], custom_corr=RC.unit_corr_c04, oracle=ig_oracle,
              note='theorem igeos_conservation: for each of the four wave patterns, every left/right state, every exact root px of the pattern\'s '
                   'generated *_call equation (fan sides: px <= p0), every xd0, t > 0 and window containing the waves, the three conserved densities formed '
                   'from the fields of the driver model integrate to initial data + t * flux difference; the model (pattern chain, star states, wave '
                   'positions, region overwriting) is tied to RiemannIGEOS.driver by in-Coq correspondence goals on random problems, including px <= p0 on fan sides'),
    flow.Unit('igeos-real-code', groups=[], props=[], oracle=ig_oracle, always_oracle=True,
              note='piecewise Simpson integration of the fields returned by IGEOS_Solver between the reported wave positions (bisect tolerance, '
                   'internal grid and np.interp back-interpolation are outside the theorem)'),
    flow.Unit('geneos-real-code', groups=[], props=[], oracle=gen_oracle, always_oracle=True,
              note='general-EOS solver (ODE-integrated P-U curves, interpolation tables, bisect: class NU): conservation oracle only, threshold 1.2e-2 '
                   '(its own error on the unchanged tree is up to 1.2e-3); ideal-gas EOS data with unequal gammas; JWL data not exercised'),
]


def run(report, tier, rng):
    report.assumptions += [
        'real-number semantics of the generated wave functions (riemann/utils.py) and of the hand model of RiemannIGEOS.driver (coq/model/RiemannIG.v)',
        'the star pressure is an exact root of the pattern equation in the theorem; SciPy bisect returns it to xtol=1e-12 (residual bounded in the correspondence goals)',
        'fan-side hypothesis px <= p0 is what the Gottlieb-Groth classification is meant to guarantee; it is checked on every correspondence case, not proved from the classification',
        'general-EOS solver: no theorem (numerical P-U curves); oracle on the real code only',
    ]
    flow.run_units(report, UNITS, tier, rng)


def replay(path):
    print(json.dumps(json.load(open(path)), indent=1)[:4000])
    return 0
