"""C12 - radiative shocks are steady travelling waves conserving total fluxes."""
import json
import flow
import harness as H
import radshock_corr as RC

UNITS = [
    flow.Unit('travelling-wave', groups=['radshock'], props=['props/C12_wave.v'], custom_corr=RC.unit_corr, oracle=RC.oracle),
    flow.Unit('equilibrium-states', groups=['radshock'], props=['props/C12_jump.v'], custom_corr=RC.unit_corr, oracle=RC.oracle,
              note='far-upstream / far-downstream states: the residuals handed to fsolve are the radiation-modified jump conditions (theorem, iff), the attributes computed '
                   'from the root keep the mass flux, and the non-dimensional fluxes are the physical ones with c0 = self.sound, P0 = self.P0 (theorems on the '
                   'regenerated constructor and residual functions); the end of the real profile is checked to be a root of the regenerated residuals'),
    flow.Unit('flux-constancy', groups=[], props=[], oracle=RC.oracle, always_oracle=True,
              findings=[dict(id='ed-embedded-shock-ramp', refuted=None, pending=None, replay=RC.replay_ed_ramp,
                             what='ED_Solver (M0 = 1.5, other parameters default): the embedded hydrodynamic shock is represented by the last integrated knot '
                                  '(x = 0) and the far-downstream end knot only, so the public call returns a linear ramp of density, velocity and pressure over '
                                  'the whole downstream end interval; mass flux of the returned fields varies by 6e-3 (16 % at M0 = 3) although it is constant to '
                                  '1e-15 on the knots')],
              note='fluxes of the RETURNED fields (public call, 1500 points across the profile) and of the internal knots; mass / total momentum / total energy flux along the computed profiles: the profiles come from SciPy ODE integration and root finding (class NU), checked on the real code for non-default parameters'),
]


def run(report, tier, rng):
    report.assumptions += [
        'structure of the wrappers\' _run (np.interp of flipped profile arrays on knots -flip(x)+shift) is extracted by the translator; numpy.interp is modelled by coq/model/Interp.v and compared with numpy on random knot lists inside Coq',
        'profiles (ODE integration, root finding, Sn transport sweeps) are outside the theorems: flux constancy is an oracle on the real code',
    ]
    flow.run_units(report, UNITS, tier, rng)


def replay(path):
    print(json.dumps(json.load(open(path)), indent=1)[:4000])
    return 0
