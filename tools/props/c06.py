"""C06 - a value depends only on (parameters, point, time), not on history or batch."""
import json
import flow
import harness as H
import history_dynamic as HD

_last = {}


def hist_corr(rng, tier, prop):
    r = HD.run(rng, tier)
    dis = [{'why': d['why'], 'solver': d['spec']['class'], 'params': d['spec'].get('params'), 'points': d['spec']['pts'], 't': d['spec']['t'],
            'detail': {k: v for k, v in d.items() if k not in ('spec', 'why')}} for d in r['diffs']]
    _last['dis'] = dis
    sample = {'calls_in_history': r['n'], 'rounds': 3, 'between_rounds': 'every object also used on another grid of the same shape, reversed points and another time', 'twins': 'second instance per class sharing parameters but one', 'poisoned_globals': 'ramsey, eexp, rmtv.timmes, suolson.timmes set to NaN before every call',
              'errors': r['errors'][:5]}
    return [], 0, dis, sample


def oracle(rng, tier, reasons):
    return _last.get('dis', [])


SHARED = r'''
from exactpack.solvers.nohblackboxeos import SphericalNohBlackBox
from exactpack.solvers.nohblackboxeos.equations_of_state.eos_library import ideal_gas_eos
def main(payload):
    r = np.array([0.05, 0.1, 0.5])
    a = SphericalNohBlackBox(ideal_gas_eos(5.0 / 3.0)); a.set_new_solver_initial_guess([60.0, 0.5, 0.3])
    fresh = a(r, 0.6)
    b = SphericalNohBlackBox(ideal_gas_eos(5.0 / 3.0)); b.set_new_solver_initial_guess([60.0, 0.5, 0.3])
    c = SphericalNohBlackBox(ideal_gas_eos(1.4))
    c.set_new_solver_tolerance(1.0e-2)         # a public mutator called on ANOTHER instance
    later = b(r, 0.6)
    return {'same_object': a.solver is b.solver, 'fresh_density': [float(v) for v in fresh.density], 'after_other_instance_changed_tolerance': [float(v) for v in later.density]}
'''


def replay_shared():
    r = H.run_real(SHARED, {})
    if r['same_object'] and r['fresh_density'] != r['after_other_instance_changed_tolerance']:
        return r
    return None


UNITS = [
    flow.Unit('hidden-state', groups=['footprint'], props=['props/C06_history.v'], custom_corr=hist_corr, oracle=oracle,
              findings=[dict(id='blackbox-shared-newton-solver', refuted=None, pending=None,
                             what='all black-box Noh instances share one class-level newton_solver: set_new_solver_tolerance on one instance changes the results of another (two instances, ideal gas 5/3, tolerance 1e-2 set on a third)',
                             replay=replay_shared)]),
]


def run(report, tier, rng):
    report.assumptions += [
        'thread interleavings are outside the model (histories are sequential)',
        'the def-use extraction (tools/footprint.py) flattens control flow conservatively; conditional writes dominate nothing',
        'radiative-shock profile classes set a module global `fnctn` in __init__ and read it in methods during the same construction: covered by the dynamic history run only',
        'grid-dependent solvers (Mader, Sedov, SDRZ, Riemann wrappers) are exempt from batch independence as documented',
    ]
    flow.run_units(report, UNITS, tier, rng)


def replay(path):
    print(json.dumps(json.load(open(path)), indent=1)[:4000])
    return 0
