"""C18 - Su-Olson temperatures solve the non-equilibrium Marshak diffusion problem."""
import json
import flow
import harness as H
import suolson_check as SC

UNITS = [
    flow.Unit('transform-solution', groups=['suolson'], props=['props/C18_suolson.v'], custom_corr=SC.unit_corr, oracle=SC.oracle,
              note='every integrand of the coded transform solution is a separated mode that satisfies the coupled equations with its material partner and the '
                   'homogeneous Marshak condition; the v-quadratures carry exactly the material partners; so_wave uses the documented dimensionalisation'),
    flow.Unit('suolson-real-code', groups=[], props=[], oracle=SC.oracle, always_oracle=True,
              note='finite-difference residuals of both equations on the u, v implied by the returned temperatures (non-default opacity, alpha, boundary temperature), '
                   'Marshak condition at x = 0, far field, opacity and boundary-temperature scaling, published epsilon = 0.1 table entries reached through alpha'),
]


def run(report, tier, rng):
    report.assumptions += [
        'differentiation under the improper oscillatory integrals and their convergence are NOT proved (no dominated-convergence theorem for such integrals in the '
        'installed libraries): the assembled statement is partial; the oracle checks it numerically on the real code',
        'scipy quad / brentq, the splitting of the integrals at the zeros of the oscillating factor and the 1e-14 clamps are outside the theorems',
        'physical constants (clight, ssol, kev) are those coded in so_wave; sqrt(3) is the coded literal 1.7320508075688772 (within 1e-15, proved with interval)',
    ]
    flow.run_units(report, UNITS, tier, rng)


def replay(path):
    print(json.dumps(json.load(open(path)), indent=1)[:4000])
    return 0
