"""C02 - every shock / front / contact obeys the Rankine-Hugoniot relations."""
import json
import flow
import harness as H
import oracles as O
from props import c01


def rh_replay(module, cls, params, t, lo, hi, thresh=1e-3):
    def f():
        o = H.run_real(O.RH_SCRIPT, [{'module': module, 'class': cls, 'params': params, 't': t, 'lo': lo, 'hi': hi}])[0]
        if 'error' in o:
            return None
        bad = {k: o[k] for k in ('mass', 'momentum', 'energy') if o[k] > thresh}
        if bad:
            return {'solver': cls, 'params': params, 't': t, 'located_discontinuity': o['x_shock'],
                    'speed_from_neighbouring_times': o['speed'], 'normalised_jump_defects': bad}
        return None
    return f


C19 = {'gamma': (1.1, 2.5), 'u0': (-3.0, -0.2)}
C20 = {'gamma': (1.1, 2.5), 'a': (0.02, 0.08), 'u0': (0.5, 3.0)}
C20W = {'geometry': 3, 'gamma': 1.4, 'rho0': 1.8, 'u0': 2.3, 'a': 0.05, 'Gamma': 40.0}

UNITS = [
    flow.Unit('noh', groups=['noh'], props=['props/C02_noh.v'],
              corr=[dict(gen='Noh1', pfx='noh', n=6, spec=c01.NOHSPEC)],
              oracle=O.rh_oracle('Noh1', 'noh', spec=c01.NOHSPEC)),
    flow.Unit('cog19', groups=['cog19'], props=['props/C02_cog19.v'],
              corr=[dict(gen='Cog19', pfx='cog19', n=4, spec=C19)],
              oracle=O.rh_oracle('Cog19', 'cog19', spec=C19)),
    flow.Unit('cog21', groups=['cog21'], props=['props/C02_cog21.v'],
              corr=[dict(gen='Cog21', pfx='cog21', n=4)],
              oracle=O.rh_oracle('Cog21', 'cog21', tsampler=lambda rng, p: round(rng.uniform(0.05, 0.2), 4))),
    flow.Unit('cog20', groups=['cog20'], props=[],
              corr=[dict(gen='Cog20', pfx='cog20', n=4, spec=c01.UNITS[0].corr[0].get('spec') and None or {'gamma': (1.1, 2.5), 'a': (0.1, 0.5), 'u0': (0.5, 3.0)}, rt=c01.cog20_rt)],
              oracle=None,
              findings=[dict(id='cog20-shock-trajectory', refuted='props/C02_cog20_refuted.v', pending=None,
                             what='Cog20: states across the coded shock location do not satisfy the jump conditions (geometry=3,gamma=1.4,rho0=1.8,u0=2.3,a=0.05,Gamma=40,t=1)',
                             replay=rh_replay('exactpack.solvers.cog.cog20', 'Cog20', C20W, 1.0, 0.01, 8.0))]),
]


import riemann_corr as RC
import riemann_oracles as RO
UNITS.append(flow.Unit('riemann-igeos', groups=['riemann'], props=['props/C02_riemann.v'],
                       custom_corr=RC.unit_corr, oracle=RO.rh_oracle))


def run(report, tier, rng):
    report.assumptions += [
        'real-number semantics of the generated model; py2coq translator validated by in-Coq correspondence goals',
        'geometric source terms do not contribute to the jump at a point (standard)',
    ]
    flow.run_units(report, UNITS, tier, rng)


def replay(path):
    d = json.load(open(path))
    print(json.dumps(d, indent=1)[:4000])
    return 0
