"""C02 - every shock / front / contact obeys the Rankine-Hugoniot relations."""
import json
import flow
import harness as H
import oracles as O
from props import c01


def rh_replay(module, cls, params, t, lo, hi, thresh=1e-3):
    def f():
        o = H.run_real(O.RH_SCRIPT, [{'module': module, 'class': cls, 'params': params, 't': t, 'lo': lo, 'hi': hi}])[0]
        if 'error' in o:
            return None
        bad = {k: o[k] for k in ('mass', 'momentum', 'energy') if o[k] > thresh}
        if bad:
            return {'solver': cls, 'params': params, 't': t, 'located_discontinuity': o['x_shock'],
                    'speed_from_neighbouring_times': o['speed'], 'normalised_jump_defects': bad}
        return None
    return f


C19 = {'gamma': (1.1, 2.5), 'u0': (-3.0, -0.2)}
C20 = {'gamma': (1.1, 2.5), 'a': (0.02, 0.08), 'u0': (0.5, 3.0)}
C20W = {'geometry': 3, 'gamma': 1.4, 'rho0': 1.8, 'u0': 2.3, 'a': 0.05, 'Gamma': 40.0}

UNITS = [
    flow.Unit('noh', groups=['noh'], props=['props/C02_noh.v'],
              corr=[dict(gen='Noh1', pfx='noh', n=6, spec=c01.NOHSPEC)],
              oracle=O.rh_oracle('Noh1', 'noh', spec=c01.NOHSPEC)),
    flow.Unit('cog19', groups=['cog19'], props=['props/C02_cog19.v'],
              corr=[dict(gen='Cog19', pfx='cog19', n=4, spec=C19)],
              oracle=O.rh_oracle('Cog19', 'cog19', spec=C19)),
    flow.Unit('cog21', groups=['cog21'], props=['props/C02_cog21.v'],
              corr=[dict(gen='Cog21', pfx='cog21', n=4)],
              oracle=O.rh_oracle('Cog21', 'cog21', tsampler=lambda rng, p: round(rng.uniform(0.05, 0.2), 4))),
    flow.Unit('cog20', groups=['cog20'], props=[],
              corr=[dict(gen='Cog20', pfx='cog20', n=4, spec=c01.UNITS[0].corr[0].get('spec') and None or {'gamma': (1.1, 2.5), 'a': (0.1, 0.5), 'u0': (0.5, 3.0)}, rt=c01.cog20_rt)],
              oracle=None,
              findings=[dict(id='cog20-shock-trajectory', refuted='props/C02_cog20_refuted.v', pending=None,
                             what='Cog20: states across the coded shock location do not satisfy the jump conditions (geometry=3,gamma=1.4,rho0=1.8,u0=2.3,a=0.05,Gamma=40,t=1)',
                             replay=rh_replay('exactpack.solvers.cog.cog20', 'Cog20', C20W, 1.0, 0.01, 8.0))]),
]


import riemann_corr as RC
import riemann_oracles as RO
UNITS.append(flow.Unit('riemann-igeos', groups=['riemann'], props=['props/C02_riemann.v'],
                       custom_corr=RC.unit_corr, oracle=RO.rh_oracle))


import sedov_corr as SDC
import mader_corr as MDC
import sedov_oracle as SDO


def sedov_jump_oracle(rng, tier, reasons):
    # strong-shock relations on the REAL object: the recorded jump state against the shock speed from neighbouring times
    SCRIPT = r'''
import warnings
from exactpack.solvers.sedov import Sedov
def main(payload):
    out = []
    for c in payload:
        try:
            with warnings.catch_warnings():
                warnings.simplefilter('ignore')
                s = Sedov(**c['params']); t = c['t']; g = c['params']['gamma']
                s(np.array([1.0]), t); r2 = float(s.r2); rho1, rho2, u2, p2 = (float(getattr(s, k)) for k in ('rho1', 'rho2', 'u2', 'p2'))
                h = 1e-4 * t
                s(np.array([1.0]), t + h); rp = float(s.r2); s(np.array([1.0]), t - h); rm = float(s.r2)
                us = (rp - rm) / (2 * h)
                e2 = p2 / ((g - 1) * rho2)
                mass = rho2 * (u2 - us) - rho1 * (0 - us)
                mom = rho2 * (u2 - us) * u2 + p2
                en = rho2 * (u2 - us) * (e2 + u2 * u2 / 2) + p2 * u2
                sc = rho1 * us
                amb = c['params'].get('rho0', 1.0) * r2 ** (-c['params'].get('omega', 0.0))
                out.append({'mass': abs(mass) / sc, 'momentum': abs(mom) / (sc * us), 'energy': abs(en) / (sc * us * us), 'ambient': abs(rho1 - amb) / amb})
        except Exception as ex:
            out.append({'error': type(ex).__name__ + ': ' + str(ex)[:200]})
    return out
'''
    cs = SDO.cases(rng, 2 if tier == 'quick' else 10)
    res = H.run_real(SCRIPT, cs, timeout=1800)
    fails = []
    for c, r in zip(cs, res):
        if 'error' in r:
            continue
        bad = {k: v for k, v in r.items() if not (v <= 1e-6)}
        if bad:
            fails.append({'solver': 'Sedov', 'input': c, 'normalised_jump_defects': bad})
    return fails


UNITS.append(flow.Unit('sedov-mader', groups=['sedov', 'mader'], props=['props/C02_sedov_mader.v'], custom_corr=MDC.unit_corr, oracle=sedov_jump_oracle,
                       note='Sedov: coded post-shock state, ambient profile and shock speed (= d r2/dt, theorem) satisfy the strong-shock jump conditions; '
                            'Mader: CJ state of rare() satisfies mass / momentum across the front and the sonic condition; gen/Sedov.v correspondence runs in ./check C11'))


import sdrz_corr as SZC
import admissible_oracle as AO
UNITS.append(flow.Unit('sdrz', groups=['sdrz'], props=['props/C02_sdrz.v'], custom_corr=SZC.unit_corr,
                       oracle=lambda rng, tier, reasons: AO.oracle(rng, tier, reasons, kinds=['sdrz']),
                       note='steady reaction zone: the algebraic state of run_tvec conserves mass and momentum flux in the frame of the front for every reaction '
                            'progress (theorem on regenerated definitions); also positivity / compression (C17) and c^2 = gamma p / rho (C03)'))


import ehep_corr as EHC
UNITS.append(flow.Unit('ehep-front', groups=['ehep'], props=['props/C02_ehep.v'], custom_corr=EHC.unit_corr, oracle=EHC.oracle,
                       note='detonation front of the EHEP problem: CJ state, mass / momentum across the front, sonic condition (energy needs the unreturned heat of '
                            'reaction); also EOS of all regions (C03), self-similarity of region I (C10), non-negativity (C17)'))
import piston_corr as PC
UNITS.append(flow.Unit('ep-piston', groups=['piston'], props=['props/C02_piston.v'], custom_corr=PC.unit_corr, oracle=PC.oracle,
                       note='elastic precursor (any density at yield) and plastic wave (EVERY plastic wave speed) satisfy the jump conditions with the total stress '
                            'p - s_dev (theorems on the regenerated constructor algebra); the three yield-density models and fsolve are outside the subset; _run returns '
                            'these states region by region (checked on the real code)'))


import residual_corr as RSC
import blackbox_rh_oracle as BBO
UNITS.append(flow.Unit('blackbox-noh', groups=['residuals'], props=['props/C02_blackbox.v'], custom_corr=RSC.unit_corr, oracle=BBO.oracle, always_oracle=True,
                       note='Noh with a black-box EOS: the residuals handed to the Newton solver (pressure and energy form) vanish iff the post-shock state at rest and '
                            'the converging pre-shock state satisfy the three jump conditions, for every EOS value, symmetry and upstream pressure (theorems on the '
                            'regenerated residual components); on the real residual classes each component is compared with the Rankine-Hugoniot defect computed '
                            'from the textbook relations, with non-zero upstream pressure (every run)'))


import rmtv_jump_oracle as RJO
import rmtv_corr as RMC
UNITS.append(flow.Unit('rmtv-isothermal-shock', groups=['rmtv'], props=['props/C02_rmtv.v'], custom_corr=RMC.unit_corr, oracle=RJO.oracle, always_oracle=True,
                       note='RMTV: the shock map of rmtv_1d (Kamm eq. 15) and the conversion tail, both regenerated from the source, conserve mass and momentum '
                            'across the isothermal shock with the similarity shock speed and leave the temperature continuous, for every pre-shock state the '
                            'integrator may deliver (theorem rmtv_shock_jump; the map is tied to the code by replacing solve_ivp with a probe and reading the '
                            'post-shock start values the real rmtv_1d hands to the second integration); on the real solver the shock is located on the returned '
                            'fields and the jump is evaluated with the mass-conserving speed (every run)'))


import guderley_corr as GDC
import guderley_oracle as GDO
UNITS.append(flow.Unit('guderley-shocks', groups=['guderley'], props=['props/C02_guderley.v'], custom_corr=GDC.unit_corr, oracle=GDO.jump_oracle, always_oracle=True,
                       findings=[dict(id='guderley-lazarus-time-units', refuted='props/C02_guderley_refuted.v', pending=None,
                                      what="Guderley returns velocities / pressures per unit of Lazarus time (tau = t / 0.750024322 - 1) while taking the caller's t: the converging shock as placed at t -+ dt moves 1/0.750024322 times faster than the speed for which the returned states conserve mass (11 % defect; geometry=3, gamma=3, t=0.3)",
                                      replay=GDO.replay_c02)],
                       note='Guderley: strong-shock start values at the converging shock and the general-strength jump coded at the reflected shock satisfy mass, momentum '
                            'and energy conservation for every state the integrator may deliver (theorems, shock speed r^(1-lambda)/(lambda x) in Lazarus time); the real '
                            'solver is evaluated on both sides of both shocks (oracle)'))

def run(report, tier, rng):
    report.assumptions += [
        'real-number semantics of the generated model; py2coq translator validated by in-Coq correspondence goals',
        'geometric source terms do not contribute to the jump at a point (standard)',
    ]
    flow.run_units(report, UNITS, tier, rng)


def replay(path):
    d = json.load(open(path))
    print(json.dumps(d, indent=1)[:4000])
    return 0
