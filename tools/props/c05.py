"""C05 - every solver honours the uniform call/return contract of the ExactPack API."""
import json
import os
import flow
import harness as H
import api_dynamic as A

BOOL_KEYS = ('input_unchanged', 'list_equals_array', 'tuple_equals_array', 'positions_first', 'csv_header_ok',
             'csv_values_exact', 'csv_cells_plain')


def coq_strs(l):
    return '[' + '; '.join('"%s"%%string' % x for x in l) + ']'


def api_corr(rng, tier, prop):
    """run every class of the regenerated catalogue on the real implementation; compare with the models"""
    cat = json.load(open(os.path.join(H.COQ, 'gen', 'Catalogue.json')))
    seed = rng.randrange(10 ** 6)
    heavy = ('Guderley',)
    res = A.run(seed, [{'class': d['class'], 'module': d['module'], 'construct_only': (tier == 'quick' and d['class'] in heavy)} for d in cat])
    dis = []
    goals = []
    exercised = 0
    stats = {'classes': len(cat), 'skipped': []}
    for d, r in zip(cat, res):
        tag = '%s.%s' % (d['module'], d['class'])
        if 'declared' in r:
            # constructor model evaluated inside Coq on exactly what base.ExactSolver.__init__ received
            for call in r.get('base_init_calls', []):
                obs = 'true' if call['raised'] == 'ValueError' else 'false'
                goals.append('Goal raises_ValueError (base_init %s %s %s) = %s. Proof. vm_compute. reflexivity. Qed.'
                             % (coq_strs(call['declared']), coq_strs(call['attrs']), coq_strs(call['given']), obs))
            if r['unknown_param_error'] != 'ValueError':
                dis.append({'class': tag, 'input': 'constructor called with no_such_parameter_xyz=1',
                            'observed': r['unknown_param_error'], 'expected': 'ValueError'})
            for kw, e in (r.get('inherited_only') or {}).items():
                if e != 'ValueError':
                    dis.append({'class': tag, 'input': 'constructor called with %s, a parameter that only a base class declares' % kw,
                                'observed': e or 'accepted', 'expected': 'ValueError'})
            if d['params'] and sorted(r['declared']) != sorted(d['params']):
                dis.append({'class': tag, 'why': 'catalogue parameters differ from the running class', 'catalogue': d['params'], 'real': r['declared']})
        if 'skipped' in r:
            stats['skipped'].append('%s: %s' % (tag, r['skipped']))
            continue
        exercised += 1
        for k in BOOL_KEYS:
            if r.get(k) is not True:
                dis.append({'class': tag, 'check': k, 'observed': r.get(k), 'sample_cells': r.get('csv_sample_cells')})
        if r['n_records'] != r['n_points']:
            dis.append({'class': tag, 'check': 'N records for N points', 'observed': [r['n_points'], r['n_records']]})
        if d['names'] is not None and r['names'] != d['names']:
            dis.append({'class': tag, 'why': 'field names differ from the catalogue (model)', 'catalogue': d['names'], 'real': r['names']})
        if r.get('order_preserved') is False and tag.endswith('.ie_Solver') and IE_ID in set(k['id'] for k in flow.load_known('C05')):
            stats.setdefault('known_finding_hits', []).append(tag)       # recorded finding: replayed separately (see IE_FINDING)
        elif r.get('order_preserved') is False:
            dis.append({'class': tag, 'check': 'records follow the order of the requested points', 'permutation_of_sorted_points': r.get('order_perm'),
                        'observed': 'fields are not permuted like the positions'})
        if r.get('special_points_contract') is False:
            dis.append({'class': tag, 'check': 'positions returned unchanged, input untouched, one record per point - for a request containing 0.0 and a duplicate',
                        'points': r.get('special_points')})
        if r.get('int_equals_float') is False:
            dis.append({'class': tag, 'check': 'integer positions silently give different values than the same floats'})
    stats['exercised'] = exercised
    os.makedirs(os.path.join(H.COQ, 'cases'), exist_ok=True)
    fn = os.path.join('cases', '%s_api_0.v' % prop)
    with open(os.path.join(H.COQ, fn), 'w') as f:
        f.write('From Coq Require Import List String Bool.\nFrom EP Require Import model.Api.\nImport ListNotations.\n' + '\n'.join(goals) + '\n')
    sample = {'classes_in_catalogue': len(cat), 'exercised_on_real_code': exercised, 'not_exercised': stats['skipped'][:12],
              'example': {k: v for k, v in res[0].items() if k != 'csv_raw_head'}}
    _last['dis'] = dis
    return [fn], len(goals), dis, sample


_last = {}


def api_oracle(rng, tier, reasons):
    # the correspondence run already evaluated the contract on the real code: its disagreements are the failing inputs
    return _last.get('dis', [])


IE_ID = 'ie-solver-nonmonotone-grid'
IE_SCRIPT = r'''
import warnings
def main(payload):
    from exactpack.solvers.radshocks.nED_radshocks import ie_Solver
    with warnings.catch_warnings():
        warnings.simplefilter('ignore')
        s = ie_Solver()
        knots = -np.flip(np.asarray(s.x, float))
        d = np.diff(knots)
        bad = np.nonzero(d <= 0)[0]
        out = {'knots': int(len(knots)), 'non_increasing_steps': [int(i) for i in bad[:5]], 'knots_there': [float(v) for v in knots[max(int(bad[0]) - 2, 0):int(bad[0]) + 4]] if len(bad) else []}
        rs = np.random.RandomState(12345)
        perm = [0, 3, 2, 4, 1, 5]
        for trial in range(12):
            arr = np.sort(rs.uniform(-0.01, 0.01, 6)); t = float(rs.uniform(0, 1e-8))
            A = s(arr, t); P = s(arr[perm], t)
            for k in A.dtype.names[1:]:
                a_ = np.asarray(A[k], float)[perm]; b_ = np.asarray(P[k], float)
                m = np.abs(a_ - b_) > 1e-9 * (np.abs(a_) + np.abs(b_)) + 1e-300
                if m.any():
                    out['mismatch'] = {'points': [float(v) for v in arr], 'permutation': perm, 't': t, 'field': k,
                                       'sorted_request_then_permuted': [float(v) for v in a_[m]], 'permuted_request': [float(v) for v in b_[m]]}
                    return [out]
    return [out]
'''


def ie_replay():
    o = H.run_real(IE_SCRIPT, [0], timeout=900)[0]
    if isinstance(o, dict) and (o.get('mismatch') or o.get('non_increasing_steps')):
        return o
    return None


IE_FINDING = dict(id=IE_ID, refuted=None, replay=ie_replay,
                  what='radshocks ie_Solver: the profile grid self.x is not monotone (a segment restarts at 0 after reaching 14.8), so the knots handed to np.interp are not '
                       'increasing and the value returned at a point depends on the order / the other points of the request (density 1.39 vs 1.00 for the same point)')

UNITS = [
    flow.Unit('api-model', groups=[], props=['props/C05_api.v']),
    flow.Unit('catalogue', groups=['catalogue'], props=['props/C05_catalogue.v'], custom_corr=api_corr, oracle=api_oracle, findings=[IE_FINDING]),
]


def run(report, tier, rng):
    report.assumptions += [
        'numpy.rec.fromarrays, csv.writer/reader and repr/float round-tripping are exercised dynamically, not modelled',
        'catalogue extraction (tools/catalogue.py, Python ast) is validated against the running classes on every run',
        'grid-dependent solvers (Sedov, Mader, SDRZ, Riemann wrappers): order/batch independence is C06, not C05',
    ]
    flow.run_units(report, UNITS, tier, rng)


def replay(path):
    print(json.dumps(json.load(open(path)), indent=1)[:4000])
    return 0
