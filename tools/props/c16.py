"""C16 - EOS library closures and Newton Jacobians are self-consistent."""
import json
import flow
import harness as H
import eos_oracle as EO


def replay_cs():
    r = H.run_real(EO.SCRIPT, [{'what': 'eos', 'eos': 'carnahan_starling', 'gamma': 5.0 / 3.0, 'rho': 0.5, 'e': 2.0}])[0]
    if 'error' not in r and r['de_drho'] > 1e-4:
        return {'eos': 'carnahan_starling_eos(gamma=5/3, b=0.1)', 'rho': 0.5, 'e': 2.0, 'coded_de_drho_vs_central_difference': r['values']['de_drho']}
    return None


def replay_pressure_jac():
    c = {'what': 'residual', 'cls': 'pressure_noh_residual', 'eos': 'ideal', 'gamma': 1.4,
         'ic': {'velocity': -1.0, 'density': 1.0, 'pressure': 0.5, 'symmetry': 0}, 'state': [4.0, 1.5, 0.5]}
    r = H.run_real(EO.SCRIPT, [c])[0]
    if 'error' not in r and r['jacobian_worst'] > 1e-4 and r['entry'] == [2, 0]:
        return {'residual': 'pressure_noh_residual', 'initial_conditions': c['ic'], 'state': c['state'], 'entry': r['entry'],
                'coded': r['coded'], 'finite_difference': r['finite_difference']}
    return None


def replay_default_guess():
    script = r'''
from exactpack.solvers.nohblackboxeos import NohBlackBoxEos
from exactpack.solvers.nohblackboxeos.equations_of_state.eos_library import ideal_gas_eos
def main(payload):
    s = NohBlackBoxEos(ideal_gas_eos(5.0 / 3.0))
    s.solve_jump_conditions()
    return {'shock_speed': float(s.shock_speed), 'shocked_density': float(s.shocked_density)}
'''
    r = H.run_real(script, {})
    if r['shock_speed'] <= 0:
        return {'solver': 'NohBlackBoxEos(ideal_gas_eos(5/3)) with its default initial guess', 'converged_state': r,
                'why': 'Newton iteration converges to the spurious root D = u0 < 0, rho -> 0: no shocked region is returned'}
    return None


NEWTON_SCRIPT = r'''
import warnings
from exactpack.solvers.nohblackboxeos.equations_of_state import eos_library as L
from exactpack.solvers.nohblackboxeos.solution_tools import residual_functions as RF
from exactpack.solvers.nohblackboxeos.solution_tools.newton_solvers import newton_solver
def main(payload):
    out = []
    for c in payload:
        try:
            with warnings.catch_warnings():
                warnings.simplefilter('ignore')
                eos = L.ideal_gas_eos(c['g']) if c['eos'] == 'ideal' else L.noble_abel_eos(c['g'], 0.02)
                f = RF.pressure_noh_residual(c['ic'], eos)
                ns = newton_solver()
                ns.set_function(f); ns.set_new_tolerance(1e-12)
                res = []
                for guess in c['guesses']:
                    # the same solver object is given a new initial guess and asked to solve again (a retry, or the next step of a sweep)
                    ns.set_new_initial_guess([float(v) for v in guess])
                    r = ns.solve(verbose=False)
                    x = np.array(r['solution'], dtype=float)
                    res.append({'solution': [float(v) for v in x], 'F_norm': float(np.linalg.norm(f.F(x))), 'iterations': int(r['number_of_iterations']),
                                'reported_error': float(r['error_achieved'])})
                out.append({'solves': res})
        except Exception as ex:
            out.append({'error': type(ex).__name__ + ': ' + str(ex)[:200]})
    return out
'''


def newton_oracle(rng, tier, reasons):
    """a state that the Newton solver REPORTS as converged (reported error below the tolerance) must be a root of the residual, also on the second and
    third solve of one solver object after set_new_initial_guess; guesses are perturbations of the analytic strong-shock state (ideal gas) so that the
    iteration stays in the basin of the physical root."""
    cases = []
    for _ in range(3 if tier == 'quick' else 12):
        g = round(rng.uniform(1.3, 2.0), 3); u0 = -round(rng.uniform(0.5, 2.0), 3); rho0 = round(rng.uniform(0.5, 2.0), 3); sym = rng.choice([0, 1, 2])
        D = 0.5 * (g - 1) * abs(u0); rho = rho0 * ((g + 1) / (g - 1)) ** (sym + 1); e = 0.5 * u0 * u0
        guesses = [[rho * rng.uniform(0.8, 1.2), e * rng.uniform(0.8, 1.2), D * rng.uniform(0.8, 1.2)] for _ in range(3)]
        cases.append({'eos': rng.choice(['ideal', 'na']), 'g': g, 'ic': {'velocity': u0, 'density': rho0, 'pressure': 0.0, 'symmetry': sym}, 'guesses': guesses})
    res = H.run_real(NEWTON_SCRIPT, cases, timeout=900)
    fails = []
    for c, r in zip(cases, res):
        if 'error' in r:
            if not r['error'].startswith('IterationError'):
                fails.append({'solver': 'newton_solver + pressure_noh_residual', 'input': c, 'why': 'harness could not drive the solver', 'error': r['error']})
            continue
        for k, sv in enumerate(r['solves']):
            scale = 0.5 * c['ic']['velocity'] ** 2 + 1.0
            if sv['reported_error'] <= 1e-10 and sv['F_norm'] > 1e-7 * scale:
                fails.append({'solver': 'newton_solver + pressure_noh_residual', 'input': c, 'solve_number': k + 1, 'returned': sv,
                              'why': 'the solver reports convergence but the returned state is not a root of the residual (stale convergence measures after '
                                     'set_new_initial_guess?)'})
    return fails


def eos_corr(rng, tier, prop):
    """generated EOS methods vs the real classes, decided inside Coq"""
    import os
    from fractions import Fraction
    from harness import qlit
    from py2coq import coq_num
    script = r'''
from exactpack.solvers.nohblackboxeos.equations_of_state import eos_library as L
def main(payload):
    out = []
    for c in payload:
        eos = {'ideal': lambda: L.ideal_gas_eos(c['g']), 'stiff': lambda: L.stiffened_gas_eos(c['g'], c['cs'], c['ri']),
               'na': lambda: L.noble_abel_eos(c['g'], c['b']), 'cs': lambda: L.carnahan_starling_eos(c['g'], c['b']), 'st': lambda: L.aluminum_eos()}[c['eos']]()
        r = {}
        for m in ('P', 'dP_drho', 'dP_de'):
            r[m] = float(getattr(eos, m)(c['rho'], c['x']))
        for m in ('e', 'de_dP', 'de_drho'):
            r[m] = float(getattr(eos, m)(c['rho'], c['x']))
        out.append(r)
    return out
'''
    n = 3 if tier == 'quick' else 20
    cases = []
    for _ in range(n):
        g = round(rng.uniform(1.2, 2.5), 4)
        for eos in ('ideal', 'stiff', 'na', 'cs', 'st'):
            rho = round(rng.uniform(0.3, 3.0), 4) if eos != 'st' else round(rng.choice([rng.uniform(1.5, 2.6), rng.uniform(2.8, 3.8)]), 4)
            cases.append({'eos': eos, 'g': g, 'cs': 0.7, 'ri': 0.9, 'b': 0.05, 'rho': rho, 'x': round(rng.uniform(0.5, 5.0), 4)})
    res = H.run_real(script, cases)
    goals = []
    for c, r in zip(cases, res):
        selfargs = {'ideal': [c['g']], 'stiff': [c['g'], c['cs'], c['ri']], 'na': [c['g'], c['b']], 'cs': [c['g'], c['b']],
                    'st': [2.703, 0.0, 1.97, 0.48, 0.524e6, 1.40, 0.0, 0.0]}[c['eos']]
        for m, v in r.items():
            args = ' '.join(qlit(a) for a in [c['rho'], c['x']] + selfargs)
            goals.append('Goal Rabs (eos_%s_%s %s - %s) <= %s.\nProof. autounfold with epgen. corr_solve. Qed.' % (
                c['eos'], m, args, qlit(v), coq_num(Fraction(1, 10 ** 9) * abs(Fraction(v)) + Fraction(1, 10 ** 30))))
    files = H.write_case_files('%s_eos' % prop, 'gen.EosLibrary', goals)
    return files, len(goals), [], cases[0] if cases else None


UNITS = [
    flow.Unit('eos-library', groups=['eos'], props=['props/C16_eos.v', 'props/C16_steinberg.v'], custom_corr=eos_corr, oracle=EO.oracle,
              findings=[dict(id='cs-de-drho', refuted='props/C16_eos_refuted.v', pending=None,
                             what='carnahan_starling_eos.de_drho (called with (rho, P) by every residual function) is not the derivative of e (gamma=5/3,b=1 model witness rho=1/2,P=2)',
                             replay=replay_cs)]),
    flow.Unit('residual-jacobians', groups=['residuals'], props=['props/C16_residuals.v'], custom_corr=__import__('residual_corr').unit_corr, oracle=EO.oracle,
              always_oracle=True,
              note='components of F, entries of F_prime, hand-coded 2x2 determinants and adjugates regenerated from residual_functions.py with the EOS values as free '
                   'variables: every Jacobian entry is the partial derivative of the matching residual component for an ARBITRARY EOS, 2x2 inverses are inverses (theorems); '
                   'Newton iteration, numpy.linalg.inv for the 3x3 classes and convergence are checked on the real code only',
              findings=[dict(id='pressure-residual-jacobian-sign', refuted='props/C16_residuals_refuted.v', pending=None,
                             what='pressure_noh_residual.F_prime[2,0] has the wrong sign when P_0 != 0 (ic density=1,velocity=-1,pressure=0.5,symmetry=0; state (4,1.5,0.5))',
                             replay=replay_pressure_jac),
                        dict(id='blackbox-default-guess-spurious-root', refuted=None, pending=None,
                             what='NohBlackBoxEos with its default initial guess converges to the spurious root D=u0<0 (ideal gas gamma=5/3): negative shock speed, no shocked region',
                             replay=replay_default_guess)]),
    flow.Unit('newton-solver-real-code', groups=[], props=[], oracle=newton_oracle, always_oracle=True,
              note='newton_solver used repeatedly (solve, set_new_initial_guess, solve again): every state reported as converged is a root of the residual'),
]


def run(report, tier, rng):
    report.assumptions += ['Newton iteration, numpy.linalg.inv (3x3 inverses) and convergence are exercised on the real code only (class C); the residual components and Jacobians are regenerated with the EOS calls as free variables (call shape checked by the translator)']
    flow.run_units(report, UNITS, tier, rng)


def replay(path):
    print(json.dumps(json.load(open(path)), indent=1)[:4000])
    return 0
