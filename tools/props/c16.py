"""C16 - EOS library closures and Newton Jacobians are self-consistent."""
import json
import flow
import harness as H
import eos_oracle as EO


def replay_cs():
    r = H.run_real(EO.SCRIPT, [{'what': 'eos', 'eos': 'carnahan_starling', 'gamma': 5.0 / 3.0, 'rho': 0.5, 'e': 2.0}])[0]
    if 'error' not in r and r['de_drho'] > 1e-4:
        return {'eos': 'carnahan_starling_eos(gamma=5/3, b=0.1)', 'rho': 0.5, 'e': 2.0, 'coded_de_drho_vs_central_difference': r['values']['de_drho']}
    return None


def replay_pressure_jac():
    c = {'what': 'residual', 'cls': 'pressure_noh_residual', 'eos': 'ideal', 'gamma': 1.4,
         'ic': {'velocity': -1.0, 'density': 1.0, 'pressure': 0.5, 'symmetry': 0}, 'state': [4.0, 1.5, 0.5]}
    r = H.run_real(EO.SCRIPT, [c])[0]
    if 'error' not in r and r['jacobian_worst'] > 1e-4 and r['entry'] == [2, 0]:
        return {'residual': 'pressure_noh_residual', 'initial_conditions': c['ic'], 'state': c['state'], 'entry': r['entry'],
                'coded': r['coded'], 'finite_difference': r['finite_difference']}
    return None


def replay_default_guess():
    script = r'''
from exactpack.solvers.nohblackboxeos import NohBlackBoxEos
from exactpack.solvers.nohblackboxeos.equations_of_state.eos_library import ideal_gas_eos
def main(payload):
    s = NohBlackBoxEos(ideal_gas_eos(5.0 / 3.0))
    s.solve_jump_conditions()
    return {'shock_speed': float(s.shock_speed), 'shocked_density': float(s.shocked_density)}
'''
    r = H.run_real(script, {})
    if r['shock_speed'] <= 0:
        return {'solver': 'NohBlackBoxEos(ideal_gas_eos(5/3)) with its default initial guess', 'converged_state': r,
                'why': 'Newton iteration converges to the spurious root D = u0 < 0, rho -> 0: no shocked region is returned'}
    return None


def eos_corr(rng, tier, prop):
    """generated EOS methods vs the real classes, decided inside Coq"""
    import os
    from fractions import Fraction
    from harness import qlit
    from py2coq import coq_num
    script = r'''
from exactpack.solvers.nohblackboxeos.equations_of_state import eos_library as L
def main(payload):
    out = []
    for c in payload:
        eos = {'ideal': lambda: L.ideal_gas_eos(c['g']), 'stiff': lambda: L.stiffened_gas_eos(c['g'], c['cs'], c['ri']),
               'na': lambda: L.noble_abel_eos(c['g'], c['b']), 'cs': lambda: L.carnahan_starling_eos(c['g'], c['b']), 'st': lambda: L.aluminum_eos()}[c['eos']]()
        r = {}
        for m in ('P', 'dP_drho', 'dP_de'):
            r[m] = float(getattr(eos, m)(c['rho'], c['x']))
        for m in ('e', 'de_dP', 'de_drho'):
            r[m] = float(getattr(eos, m)(c['rho'], c['x']))
        out.append(r)
    return out
'''
    n = 3 if tier == 'quick' else 20
    cases = []
    for _ in range(n):
        g = round(rng.uniform(1.2, 2.5), 4)
        for eos in ('ideal', 'stiff', 'na', 'cs', 'st'):
            rho = round(rng.uniform(0.3, 3.0), 4) if eos != 'st' else round(rng.choice([rng.uniform(1.5, 2.6), rng.uniform(2.8, 3.8)]), 4)
            cases.append({'eos': eos, 'g': g, 'cs': 0.7, 'ri': 0.9, 'b': 0.05, 'rho': rho, 'x': round(rng.uniform(0.5, 5.0), 4)})
    res = H.run_real(script, cases)
    goals = []
    for c, r in zip(cases, res):
        selfargs = {'ideal': [c['g']], 'stiff': [c['g'], c['cs'], c['ri']], 'na': [c['g'], c['b']], 'cs': [c['g'], c['b']],
                    'st': [2.703, 0.0, 1.97, 0.48, 0.524e6, 1.40, 0.0, 0.0]}[c['eos']]
        for m, v in r.items():
            args = ' '.join(qlit(a) for a in [c['rho'], c['x']] + selfargs)
            goals.append('Goal Rabs (eos_%s_%s %s - %s) <= %s.\nProof. autounfold with epgen. corr_solve. Qed.' % (
                c['eos'], m, args, qlit(v), coq_num(Fraction(1, 10 ** 9) * abs(Fraction(v)) + Fraction(1, 10 ** 30))))
    files = H.write_case_files('%s_eos' % prop, 'gen.EosLibrary', goals)
    return files, len(goals), [], cases[0] if cases else None


UNITS = [
    flow.Unit('eos-library', groups=['eos'], props=['props/C16_eos.v', 'props/C16_steinberg.v'], custom_corr=eos_corr, oracle=EO.oracle,
              findings=[dict(id='cs-de-drho', refuted='props/C16_eos_refuted.v', pending=None,
                             what='carnahan_starling_eos.de_drho (called with (rho, P) by every residual function) is not the derivative of e (gamma=5/3,b=1 model witness rho=1/2,P=2)',
                             replay=replay_cs)]),
    flow.Unit('residual-jacobians', groups=['residuals'], props=['props/C16_residuals.v'], custom_corr=__import__('residual_corr').unit_corr, oracle=EO.oracle,
              always_oracle=True,
              note='components of F, entries of F_prime, hand-coded 2x2 determinants and adjugates regenerated from residual_functions.py with the EOS values as free '
                   'variables: every Jacobian entry is the partial derivative of the matching residual component for an ARBITRARY EOS, 2x2 inverses are inverses (theorems); '
                   'Newton iteration, numpy.linalg.inv for the 3x3 classes and convergence are checked on the real code only',
              findings=[dict(id='pressure-residual-jacobian-sign', refuted='props/C16_residuals_refuted.v', pending=None,
                             what='pressure_noh_residual.F_prime[2,0] has the wrong sign when P_0 != 0 (ic density=1,velocity=-1,pressure=0.5,symmetry=0; state (4,1.5,0.5))',
                             replay=replay_pressure_jac),
                        dict(id='blackbox-default-guess-spurious-root', refuted=None, pending=None,
                             what='NohBlackBoxEos with its default initial guess converges to the spurious root D=u0<0 (ideal gas gamma=5/3): negative shock speed, no shocked region',
                             replay=replay_default_guess)]),
]


def run(report, tier, rng):
    report.assumptions += ['Newton iteration, numpy.linalg.inv (3x3 inverses) and convergence are exercised on the real code only (class C); the residual components and Jacobians are regenerated with the EOS calls as free variables (call shape checked by the translator)']
    flow.run_units(report, UNITS, tier, rng)


def replay(path):
    print(json.dumps(json.load(open(path)), indent=1)[:4000])
    return 0
