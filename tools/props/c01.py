"""C01 - returned fields satisfy the documented governing PDEs wherever smooth."""
import json
import flow
import harness as H
import oracles as O

POS = (0.2, 3.0)


def cog_unit(i, spec=None, rt=None, heat=None, extra_props=(), kfun=None, n=4):
    nm = 'cog%d' % i
    spec = spec or {}
    return flow.Unit(nm, groups=[nm], props=['props/C01_%s.v' % nm] + list(extra_props),
                     corr=[dict(gen='Cog%d' % i, pfx=nm, n=n, spec=spec, rt=rt)],
                     oracle=O.pde_oracle('Cog%d' % i, nm, spec=spec, rt=rt, heat=heat, kfun=kfun))


G = {'gamma': (1.1, 2.5)}
KC = 4 * 137.20 * 2.997e10 / 3      # 4 a c / 3 with the constants hard-coded in the conduction solvers


def tau_rt(rng, p):
    return round(rng.uniform(0.1, 3.0), 5), round(rng.uniform(0.05, 0.9) * p['tau'], 5)


UNITS = [
    cog_unit(1, G), cog_unit(2, G), cog_unit(3), cog_unit(4, G), cog_unit(5),
    cog_unit(6, rt=tau_rt),
    cog_unit(8, G, heat=lambda p: (1.0, p['alpha'], p['beta'])),
    cog_unit(9, G, heat=lambda p: (1.0, p['alpha'], p['beta'])),
    cog_unit(11, {'gamma': (1.05, 1.6)}, heat=lambda p: (1.0, p['beta'] + 4 + (p['geometry'] - 2) / (2 - (p['gamma'] - 1) * p['geometry']), p['beta'])),
    cog_unit(12, {'gamma': (0.3, 0.9), 'geometry': [2, 3]},
             heat=lambda p: (1.0, (p['beta'] + 4) * (1 - p['gamma']) + (p['geometry'] - 2) * (p['gamma'] + 1) / (2 * (p['geometry'] - 1)), p['beta'])),
    cog_unit(18, rt=tau_rt, heat=lambda p: (1.0, p['alpha'], p['beta'])),
]


def run(report, tier, rng):
    report.assumptions += [
        'real-number semantics of the generated model (IEEE rounding not modelled; measured by the correspondence goals)',
        'py2coq translator (validated on every run by the in-Coq correspondence goals)',
    ]
    flow.run_units(report, UNITS, tier, rng)


def replay(path):
    d = json.load(open(path))
    print(json.dumps(d, indent=1)[:4000])
    return 0
