"""C01 - returned fields satisfy the documented governing PDEs wherever smooth."""
import json
import flow
import harness as H
import oracles as O

POS = (0.2, 3.0)


def pde_replay(module, cls, params, r, t, k, heat=None, eqs=('mass', 'momentum', 'energy'), thresh=1e-4):
    def f():
        res = H.run_real(O.PDE_SCRIPT, [{'module': module, 'class': cls, 'params': params, 'r': r, 't': t, 'k': k,
                                         'heat': list(heat) if heat else None}])[0]
        if 'error' in res:
            return None
        bad = {e: res[e] for e in eqs if res[e] == res[e] and res[e] > thresh}
        if bad:
            return {'solver': cls, 'params': params or 'defaults', 'r': r, 't': t, 'normalised_residuals': bad}
        return None
    return f


def only_eqs(*eqs):
    """a failing input is covered by a known finding when only these equations fail"""
    def cov(fi):
        bad = [e for e, v in fi['normalised_residuals'].items() if v == v and v > 1e-5]
        return all(e in eqs for e in bad)
    return cov


def cog_unit(i, spec=None, rt=None, heat=None, props=None, kfun=None, n=4, findings=(), always_oracle=False, covers=None):
    nm = 'cog%d' % i
    spec = spec or {}
    base = O.pde_oracle('Cog%d' % i, nm, spec=spec, rt=rt, heat=heat, kfun=kfun)
    if covers:
        def oracle(rng, tier, reasons):
            return [f for f in base(rng, tier, reasons) if not covers(f)]
    else:
        oracle = base
    return flow.Unit(nm, groups=[nm], props=(['props/C01_%s.v' % nm] if props is None else props),
                     corr=[dict(gen='Cog%d' % i, pfx=nm, n=n, spec=spec, rt=rt)],
                     oracle=oracle, findings=findings, always_oracle=always_oracle)


G = {'gamma': (1.1, 2.5)}
KC = 4 * 137.20 * 2.997e10 / 3      # 4 a c / 3 with the constants hard-coded in the conduction solvers
COGM = 'exactpack.solvers.cog.'


def tau_rt(rng, p):
    return round(rng.uniform(0.1, 3.0), 5), round(rng.uniform(0.05, 0.9) * p['tau'], 5)


def heat_params(p):
    return (KC * p['lambda0'], p['alpha'], p['beta'])


def cog20_rt(rng, p):
    t = round(rng.uniform(0.1, 0.8) / abs(p['a']), 5)
    return round(rng.uniform(0.02, 3.0), 5), t


def cog20_cov(fi):
    # known: energy in the post-shock region when gamma <> (k+3)/(k+1)
    p = fi['params']
    s = p['u0'] * (p['gamma'] - 1) / (4 * p['a']) * fi['t'] * (1 - 2 * p['a'] * fi['t']) / (1 - p['a'] * fi['t'])
    return fi['r'] < s and only_eqs('energy')(fi)


UNITS = [
    cog_unit(1, G), cog_unit(2, G), cog_unit(3), cog_unit(4, G), cog_unit(5),
    cog_unit(6, rt=tau_rt),
    cog_unit(7, rt=tau_rt, always_oracle=True),
    cog_unit(8, G, heat=lambda p: (1.0, p['alpha'], p['beta'])),
    cog_unit(9, G, heat=lambda p: (1.0, p['alpha'], p['beta'])),
    cog_unit(10, G, always_oracle=True,
             heat=lambda p: (KC * p['lambda0'], p['beta'] + 4 - 1 / (p['geometry'] - 1), p['beta'])),
    cog_unit(11, {'gamma': (1.05, 1.6)}, heat=lambda p: (1.0, p['beta'] + 4 + (p['geometry'] - 2) / (2 - (p['gamma'] - 1) * p['geometry']), p['beta'])),
    cog_unit(12, {'gamma': (0.3, 0.9), 'geometry': [2, 3]},
             heat=lambda p: (1.0, (p['beta'] + 4) * (1 - p['gamma']) + (p['geometry'] - 2) * (p['gamma'] + 1) / (2 * (p['geometry'] - 1)), p['beta'])),
    cog_unit(13, G, heat=heat_params, covers=only_eqs('energy'),
             findings=[dict(id='cog13-energy', refuted='props/C01_cog13_refuted.v', pending=None,
                            what='Cog13 energy equation residual <> 0 (defaults, r=1, t=1)',
                            replay=pde_replay(COGM + 'cog13', 'Cog13', {}, 1.0, 1.0, 2, heat=(KC * 0.1, 2.0, 1.0), eqs=('energy',)))]),
    cog_unit(14, {'gamma': (1.1, 2.5), 'geometry': [2, 3]}, always_oracle=True, heat=heat_params),
    cog_unit(16, {'gamma': (1.1, 2.5), 'b': (0.2, 0.9)}, always_oracle=True,
             heat=lambda p: (KC * p['lambda0'], 1 - 1 / (p['geometry'] - 1), (1 - 1 / (p['geometry'] - 1)) / 2 - 3)),
    cog_unit(17, {'gamma': (1.1, 2.5), 'alpha': (-3, 0.5), 'beta': (-3, 1)}, heat=heat_params, covers=only_eqs('mass', 'energy'),
             findings=[dict(id='cog17-mass-energy', refuted='props/C01_cog17_refuted.v', pending=None,
                            what='Cog17 mass equation residual <> 0 (geometry=3,gamma=2,alpha=-1,beta=-0.5,lambda0=0.1,Gamma=40,r=1,t=1)',
                            replay=pde_replay(COGM + 'cog17', 'Cog17', {'geometry': 3, 'gamma': 2.0, 'alpha': -1.0, 'beta': -0.5, 'lambda0': 0.1, 'Gamma': 40.0},
                                              1.0, 1.0, 2, eqs=('mass',)))]),
    cog_unit(18, rt=tau_rt, heat=lambda p: (1.0, p['alpha'], p['beta'])),
    cog_unit(19, {'gamma': (1.1, 2.5), 'u0': (-3.0, -0.2)}),
    cog_unit(20, {'gamma': (1.1, 2.5), 'a': (0.1, 0.5), 'u0': (0.5, 3.0)}, rt=cog20_rt, covers=cog20_cov,
             findings=[dict(id='cog20-post-energy', refuted='props/C01_cog20_refuted.v', pending=None,
                            what='Cog20 post-shock energy equation residual <> 0 for gamma <> (k+3)/(k+1) (defaults, r=0.1, t=1)',
                            replay=pde_replay(COGM + 'cog20', 'Cog20', {}, 0.1, 1.0, 2, eqs=('energy',)))]),
    cog_unit(21, kfun=lambda p: 2.0),
]

NOHSPEC = {'gamma': (1.1, 2.5), 'u0': (-3.0, -0.2)}
UNITS.append(flow.Unit('noh', groups=['noh'], props=['props/C01_noh.v'],
                       corr=[dict(gen='Noh1', pfx='noh', n=6, spec=NOHSPEC)],
                       oracle=O.pde_oracle('Noh1', 'noh', spec=NOHSPEC)))


def noh2_rt(rng, p):
    return round(rng.uniform(0.1, 3.0), 5), round(rng.uniform(0.05, 0.9), 5)


UNITS.append(flow.Unit('noh2', groups=['noh2'], props=['props/C01_noh2.v'],
                       corr=[dict(gen='Noh2', pfx='noh2', n=4, spec=G, rt=noh2_rt),
                             dict(gen='Noh2Cog', pfx='noh2cog', n=4, spec=G, rt=noh2_rt)],
                       oracle=O.pde_oracle('Noh2', 'noh2', spec=G, rt=noh2_rt)))


import riemann_corr as RC
import riemann_oracles as RO
UNITS.append(flow.Unit('riemann-igeos-fans', groups=['riemann'], props=['props/C01_riemann.v'],
                       custom_corr=RC.unit_corr, oracle=None,
                       note='rarefaction fans of the ideal-gas Riemann solver (left and right), any gamma'))


import ehep_corr as EC
UNITS.append(flow.Unit('ehep', groups=['ehep'], props=['props/C01_ehep.v'], custom_corr=EC.unit_corr, oracle=EC.oracle,
                       note='escape of HE products: region formulas I-V regenerated from _run; Euler equations in every region (II: where its clamped sound speed is '
                            'positive), continuity across the separating characteristics; the point-in-polygon region lookup is outside the theorems (the '
                            'correspondence reads the region label the real solver returns)'))


import guderley_corr as GDC
import guderley_oracle as GDO
UNITS.append(flow.Unit('guderley', groups=['guderley'], props=['props/C01_guderley.v'], custom_corr=GDC.unit_corr, oracle=GDO.pde_oracle, always_oracle=True,
                       findings=[dict(id='guderley-lazarus-time-units', refuted='props/C01_guderley_refuted.v', pending=None,
                                      what="Guderley returns velocities / pressures per unit of Lazarus time (tau = t / 0.750024322 - 1) while taking the caller's t: mass equation residual 9e-2 in the caller's (r, t) (geometry=3, gamma=3, r=1.5, t=0.3)",
                                      replay=GDO.replay_c01)],
                       note='Guderley: IF the similarity variables solve the coded ODEs y\' = g(x, y) THEN the fields built by state() satisfy mass, momentum and energy '
                            'conservation in (r, Lazarus time) (theorem; g and the field map regenerated from ramsey.py, tied by a probe that replaces solve_ivp); '
                            'that solve_ivp solves the ODEs is checked by the finite-difference oracle on the real solver in every branch'))

def run(report, tier, rng):
    report.assumptions += [
        'real-number semantics of the generated model (IEEE rounding not modelled; measured by the correspondence goals)',
        'py2coq translator (validated on every run by the in-Coq correspondence goals)',
    ]
    flow.run_units(report, UNITS, tier, rng)


def replay(path):
    d = json.load(open(path))
    print(json.dumps(d, indent=1)[:4000])
    return 0
