"""C01 - returned fields satisfy the documented governing PDEs wherever smooth."""
import json
import flow
import harness as H
import oracles as O

POS = (0.2, 3.0)


def cog_unit(i, spec=None, rt=None, heat=None, extra_props=(), kfun=None, n=4):
    nm = 'cog%d' % i
    spec = spec or {}
    return flow.Unit(nm, groups=[nm], props=['props/C01_%s.v' % nm] + list(extra_props),
                     corr=[dict(gen='Cog%d' % i, pfx=nm, n=n, spec=spec, rt=rt)],
                     oracle=O.pde_oracle('Cog%d' % i, nm, spec=spec, rt=rt, heat=heat, kfun=kfun))


UNITS = [
    cog_unit(1),
]


def run(report, tier, rng):
    report.assumptions += [
        'real-number semantics of the generated model (IEEE rounding not modelled; measured by the correspondence goals)',
        'py2coq translator (validated on every run by the in-Coq correspondence goals)',
    ]
    flow.run_units(report, UNITS, tier, rng)


def replay(path):
    d = json.load(open(path))
    print(json.dumps(d, indent=1)[:4000])
    return 0
