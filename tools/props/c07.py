"""C07 - independent implementations of the same problem agree."""
import json
import flow
import burn_corr as BC
import harness as H
import routes_oracle as RO
import heat_corr as HC
from props import c01

UNITS = [
    flow.Unit('noh-cog19-noh2', groups=['noh', 'cog19', 'noh2'], props=['props/C07_noh.v'],
              corr=[dict(gen='Noh1', pfx='noh', n=4, spec=c01.NOHSPEC), dict(gen='Cog19', pfx='cog19', n=4, spec={'gamma': (1.1, 2.5), 'u0': (-3.0, -0.2)}),
                    dict(gen='Noh2Cog', pfx='noh2cog', n=4, spec=c01.G, rt=c01.noh2_rt)],
              oracle=RO.oracle),
    flow.Unit('wrappers', groups=['catalogue'], props=['props/C07_wrappers.v'], oracle=RO.oracle),
    flow.Unit('heat-rod-routes', groups=['heat'], props=['props/C07_heat.v'], custom_corr=HC.unit_corr, oracle=RO.oracle),
    flow.Unit('routes-real-code', groups=[], props=[], oracle=RO.oracle, always_oracle=True,
              note='pairs of routes run on the real code: ideal-gas vs general-EOS Riemann driver on ideal-gas data (every wave pattern, unequal gammas), Noh / Cog19 / '
                   'wrappers, planar sandwiches vs rod, rod BC4 vs mirrored BC3'),
    flow.Unit('kenamond1-2d-3d', groups=[], props=['props/C07_burn.v'], custom_corr=BC.unit_corr, oracle=BC.oracle),
]


def run(report, tier, rng):
    report.assumptions += [
        'Python attribute lookup: a subclass that only overrides class attributes behaves as its base with those values',
        'routes that involve SciPy numerics (general-EOS Riemann, black-box Noh Newton solve, heat series) are compared by the oracle only',
    ]
    flow.run_units(report, UNITS, tier, rng)


def replay(path):
    print(json.dumps(json.load(open(path)), indent=1)[:4000])
    return 0
