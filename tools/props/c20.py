"""C20 - invalid problems are rejected loudly; no finite garbage outside validity."""
import json
import os
import flow
import harness as H
import gen as G
from py2coq import eval_cond, eval_expr, free_vars, coq_num
from fractions import Fraction

SCRIPT = r'''
import importlib
def main(payload):
    out = []
    for c in payload:
        mod = importlib.import_module(c['module'])
        cls = getattr(mod, c['class'])
        try:
            cls(**c['params'])
            out.append(None)
        except Exception as ex:
            out.append(type(ex).__name__)
    return out
'''


def candidates(rng, entry, n_extra, base=None):
    """parameter sets around every guard: defaults, each parameter pushed to 0, negative, boundary values of the
    comparisons it takes part in, and random pairs"""
    params = entry['params']
    if base is None:
        base = {}
        for p in params:
            d = entry['defaults'].get(p)
            if d is None:
                return []
            base[p] = float(eval_expr(G.expr_from_json(d), {}))
    cands = [dict(base)]
    specials = [0.0, -1.0, 1.0, 2.0, 3.0, 4.0, 0.5, -0.5]
    for p in params:
        vals = set(specials + [base[p], -base[p], 2 * base[p], base[p] / 2])
        for q in params:
            vals.add(base[q])
            vals.add(base[q] * 1.0000001)
            vals.add(base[q] * 0.9999999)
        for v in vals:
            c = dict(base); c[p] = v
            cands.append(c)
    for _ in range(n_extra):
        c = dict(base)
        for p in rng.sample(params, min(len(params), 2)):
            c[p] = rng.choice(specials + [base[p] * rng.uniform(-2, 2)])
        cands.append(c)
    # integer-valued floats as ints (geometry is compared with a list of ints)
    out = []
    seen = set()
    for c in cands:
        key = tuple(sorted(c.items()))
        if key in seen:
            continue
        seen.add(key)
        out.append({k: (int(v) if float(v).is_integer() and k == 'geometry' else v) for k, v in c.items()})
    return out


def init_corr(rng, tier, prop):
    js = json.load(open(os.path.join(H.COQ, 'gen', 'Init.json')))
    cases = []
    meta = []
    for name, e in js.items():
        if name.startswith('_') or e['always_raises']:
            continue
        cs = candidates(rng, e, 4 if tier == 'quick' else 40)
        if tier == 'quick' and len(cs) > 40:
            cs = cs[:1] + rng.sample(cs[1:], 39)
        for c in cs:
            cases.append({'module': e['module'], 'class': e['class'], 'params': c})
            meta.append((name, e, c))
    res = H.run_real(SCRIPT, cases, timeout=1800)
    dis = []
    goals = []
    stats = {'accepted': 0, 'rejected': 0}
    per_class_goal = {}
    for (name, e, c), r in zip(meta, res):
        cond = G.expr_from_json(e['init_ok'])
        try:
            ok = eval_cond(cond, {k: float(v) for k, v in c.items()})
        except (ZeroDivisionError, ValueError, OverflowError):
            continue
        stats['accepted' if ok else 'rejected'] += 1
        if ok and r is not None:
            dis.append({'class': '%s.%s' % (e['module'], e['class']), 'params': c, 'model': 'constructor guards accept',
                        'real': 'raised ' + r,
                        'why': 'a request the guard chain admits dies with an exception' if r != 'ValueError' else 'model and implementation differ'})
        if (not ok) and r != 'ValueError':
            dis.append({'class': '%s.%s' % (e['module'], e['class']), 'params': c, 'model': 'constructor guards reject (ValueError)',
                        'real': ('no exception' if r is None else 'raised ' + r)})
        # a few goals per class decided inside Coq
        k = per_class_goal.get(name, [0, 0])
        idx = 0 if ok else 1
        if k[idx] < 2 and not any(t in json.dumps(e['init_ok']) for t in ('"fn"', '"pi"', '"rpow"')):
            k[idx] += 1
            per_class_goal[name] = k
            args = ' '.join(coq_num(Fraction(float(c[p]))) for p in e['params'])
            if ok:
                goals.append('Goal %s %s. Proof. unfold %s. intuition (try lra). Qed.' % (name, args, name))
            else:
                goals.append('Goal ~ %s %s. Proof. unfold %s. intuition (try lra). Qed.' % (name, args, name))
    fn = os.path.join('cases', '%s_init_0.v' % prop)
    os.makedirs(os.path.join(H.COQ, 'cases'), exist_ok=True)
    with open(os.path.join(H.COQ, fn), 'w') as f:
        f.write('From Coq Require Import Reals Lra.\nFrom EP Require Import lib.Base gen.Init.\nOpen Scope R_scope.\n' + '\n'.join(goals) + '\n')
    _last['dis'] = dis
    sample = {'constructor_calls_on_real_code': len(cases), 'model_accepts': stats['accepted'], 'model_rejects': stats['rejected'],
              'classes_with_translated_guards': len([k for k in js if not k.startswith('_')]),
              'classes_without_translated_guards': js.get('_skipped', [])[:30], 'example': cases[1] if len(cases) > 1 else None}
    return [fn], len(goals), dis, sample


_last = {}


def _safe(f, p):
    try:
        return bool(f({k: float(v) for k, v in p.items()}))
    except Exception:
        return False


def init_oracle(rng, tier, reasons):
    """failing-input search: documented restriction (Python mirror of the spec) against the real constructors"""
    fails = list(_last.get('dis', []))
    import restrictions as RS
    js = json.load(open(os.path.join(H.COQ, 'gen', 'Init.json')))
    cases, meta = [], []
    for name, e in js.items():
        if name.startswith('_') or e['class'] not in RS.DOC_OK or e['always_raises']:
            continue
        cs = candidates(rng, e, 60)
        if not cs:
            continue
        if cs and not _safe(RS.DOC_OK[e['class']], cs[0]):
            # the class defaults are themselves inadmissible (e.g. xnodes = 0): look for an admissible base first
            for _ in range(3000):
                b = {k: (rng.choice([v, 1.0, 2.0, 3.0, 0.5, -1.0, 10.0]) if k != 'geometry' else rng.choice([1, 2, 3])) for k, v in cs[0].items()}
                if _safe(RS.DOC_OK[e['class']], b):
                    cs = candidates(rng, e, 60, base={k: float(v) for k, v in b.items()})
                    break
        # angle-like parameters: also try values around pi/6, pi/3
        for c in list(cs[:1]):
            for p in e['params']:
                if p.startswith('omega'):
                    for v in (0.5236, 1.0472, 1.2, 0.3):
                        for rd in (0.8, 1.2, 1.5, 2.5, 4.0):
                            c2 = dict(c); c2[p] = v
                            if 'r_d' in c2:
                                c2['r_d'] = rd * c2.get('R', 1.0)
                            cs.append(c2)
        # cheap search on the regenerated guard model: parameter sets on which the guard chain and the documented
        # restriction disagree (these are then confirmed on the real constructor)
        b0 = cs[0]
        cond = G.expr_from_json(e['init_ok'])
        found = 0
        for _ in range(30000):
            c2 = {}
            for k, v in b0.items():
                u = rng.random()
                if k in ('geometry', 'IC') or (float(v).is_integer() and abs(float(v)) <= 3 and u < 0.5):
                    c2[k] = rng.choice([1, 2, 3]) if u < 0.9 else rng.choice([0, 4, -1])
                elif u < 0.3:
                    c2[k] = v
                elif u < 0.85:
                    c2[k] = float(v) * rng.uniform(0.2, 3.0)
                else:
                    c2[k] = rng.choice([0.0, 1.0, 2.0, 3.0, -1.0, 0.5])
            try:
                m = eval_cond(cond, {k: float(v) for k, v in c2.items()})
            except (ZeroDivisionError, ValueError, OverflowError):
                continue
            if m != _safe(RS.DOC_OK[e['class']], c2):
                cs.append(c2)
                found += 1
                if found >= 20:
                    break
        for c in cs:
            cases.append({'module': e['module'], 'class': e['class'], 'params': c})
            meta.append((e, c))
    res = H.run_real(SCRIPT, cases, timeout=1800)
    for (e, c), r in zip(meta, res):
        try:
            ok = RS.DOC_OK[e['class']]({k: float(v) for k, v in c.items()})
        except Exception:
            continue
        if ok and r is not None:
            fails.append({'class': '%s.%s' % (e['module'], e['class']), 'params': c, 'documented': 'admissible', 'real': 'raised ' + r})
        if (not ok) and r != 'ValueError':
            fails.append({'class': '%s.%s' % (e['module'], e['class']), 'params': c, 'documented': 'must be rejected with ValueError',
                          'real': 'no exception' if r is None else 'raised ' + r})
    return fails


COG_DEFINED = [2, 3, 4, 5, 6, 8, 9, 10, 11, 12, 13, 14, 16, 17, 18, 21]

FINITE_SCRIPT = r"""
import importlib
def main(cases):
    out = []
    for c in cases:
        try:
            S = getattr(importlib.import_module(c['module']), c['class'])(**c['params'])
            sol = S(np.array(c['r'], dtype=float), c['t'])
            bad = [nm for nm in sol.dtype.names if not np.all(np.isfinite(np.asarray(sol[nm], dtype=float)))]
            out.append({'bad': bad})
        except Exception as e:
            out.append({'error': type(e).__name__ + ': ' + str(e)[:200]})
    return out
"""


def cog_finite_oracle(rng, tier, reasons):
    """failing-input search for the Coggeshall definedness theorems: the real solvers at their class defaults (and the
    geometry wrappers), many positions and in-domain times; any non-finite value is a violation of 'valid requests inside the
    domain never produce NaN or infinity'."""
    cases = []
    for i in COG_DEFINED:
        for cls in ('Cog%d', 'PlanarCog%d', 'CylindricalCog%d', 'SphericalCog%d'):
            for _ in range(3 if tier == 'quick' else 12):
                tmax = 1.2 if i in (6, 7, 18) else 5.0          # class default tau = 1.25
                params = {'Gamma': 40.0} if i in (11, 12) else {}
                cases.append({'module': 'exactpack.solvers.cog.cog%d' % i, 'class': cls % i, 'params': params,
                              'r': [round(10 ** rng.uniform(-3, 1.5), 6) for _ in range(12)], 't': round(rng.uniform(1e-3, tmax), 6)})
    res = H.run_real(FINITE_SCRIPT, cases, timeout=900)
    fails = []
    for c, r in zip(cases, res):
        if r.get('error', '').startswith(('AttributeError', 'ValueError')):
            continue                                     # wrapper does not exist / geometry not accepted by this class
        if r.get('bad') or r.get('error'):
            fails.append({'class': c['module'] + '.' + c['class'], 'params': c['params'] or 'defaults', 'r': c['r'], 't': c['t'], 'observed': r})
    return fails


SEDOV_OVF = r'''
def main(payload):
    from exactpack.solvers.sedov import Sedov
    out = []
    for om in payload['omegas']:
        try:
            s = Sedov(geometry=3, gamma=1.524, rho0=1.337, eblast=1.184, omega=om)
            out.append({'omega': om, 'ok': True, 'type': s.solution_type, 'special': s.special_singularity})
        except Exception as ex:
            out.append({'omega': om, 'ok': False, 'raised': type(ex).__name__, 'msg': str(ex)[:120]})
    return out
'''


def replay_sedov_overflow():
    """known finding sedov-overflow-next-to-omega3: admissible parameters next to (not on) the special exponent omega3 = j (2 - gamma)"""
    r = H.run_real(SEDOV_OVF, {'omegas': [1.42, 1.429, 1.4295, 1.43]}, timeout=600)
    bad = [x for x in r if not x['ok'] and x['raised'] != 'ValueError']
    if bad:
        return {'class': 'exactpack.solvers.sedov.Sedov', 'params': {'geometry': 3, 'gamma': 1.524, 'rho0': 1.337, 'eblast': 1.184}, 'omega3': 3 * (2 - 1.524), 'observed': r}
    return None


UNITS = [
    flow.Unit('constructor-guards', groups=['inits'], props=['props/C20_init.v'], custom_corr=init_corr, oracle=init_oracle),
    flow.Unit('definedness', groups=['noh', 'noh2', 'cog1', 'cog19'], props=['props/C20_defined.v']),
    flow.Unit('definedness-coggeshall', groups=['cog%d' % i for i in COG_DEFINED], props=['props/C20_defined_cog.v'],
              corr=[c for u in __import__('props.c01', fromlist=['UNITS']).UNITS if u.name in ['cog%d' % i for i in COG_DEFINED]
                    for c in [dict(cc, n=2) for cc in u.corr]],
              oracle=cog_finite_oracle, always_oracle=True,
              note='Coggeshall 2-6, 8-14, 16-18, 21: the parameter-only conjuncts of the generated definedness condition imply the whole condition at every '
                   'r > 0, t > 0 (t < tau): no position- or time-dependent singularity inside the documented domain (theorems on the regenerated field '
                   'expressions; failing-input search: non-finite values of the real solvers at the class defaults)'),
    flow.Unit('documented-restrictions-real-code', groups=[], props=[], oracle=lambda rng, tier, reasons: __import__('restrict_oracle').oracle(rng, tier, reasons),
              always_oracle=True,
              findings=[dict(id='sedov-overflow-next-to-omega3', refuted=None, pending=None, replay=replay_sedov_overflow,
                             what='Sedov(geometry=3, gamma=1.524, omega=1.429) - an admissible density exponent 1e-3 above the special value omega3 = j (2 - gamma) = 1.428, '
                                  'outside the 1e-4 window of the special branch - dies in the constructor with OverflowError (34, Numerical result out of range) inside the '
                                  'energy integrand (exponent a4 ~ 1/(omega - omega3)); omega = 1.42 and 1.43 construct normally')],
              note='classes whose guards are outside the translated subset: Kenamond2 constructor against its documented restrictions (incl. the ordering of detonation '
                   'times with t_d[2] != 0), EP piston time-domain guard (raise iff the elastic wave has left the grid), NaN at t <= 0 for Sedov, Mader, Su-Olson'),
]


def run(report, tier, rng):
    report.assumptions += [
        'documented restrictions transcribed by hand in coq/spec/Restrictions.v (property text)',
        'overflow to inf for extreme but admissible parameters is outside the real-number model',
    ]
    flow.run_units(report, UNITS, tier, rng)


def replay(path):
    print(json.dumps(json.load(open(path)), indent=1)[:4000])
    return 0
