"""C17 - admissibility: positive fields, compressive shocks, monotone fans, between-ness."""
import json
import flow
import harness as H
import riemann_corr as RC
import mader_corr as MC
import guderley_corr as GDC
import admissible_oracle as AO
from props import c01


def oracle_of(*kinds, **kw):
    def f(rng, tier, reasons):
        return AO.oracle(rng, tier, reasons, kinds=list(kinds), **kw)
    return f


UNITS = [
    flow.Unit('riemann-igeos', groups=['riemann'], props=['props/C17_riemann.v'], custom_corr=RC.unit_corr_c04, oracle=oracle_of('riemann', skip_geneos=True),
              note='wave-pattern chain puts the star pressure on the admissible side of every wave (theorem igeos_classification_admissible: strict '
                   'monotonicity of the generated shock / rarefaction functions, thresholds u_SCN, u_NCS, u_NCR, u_RCN identified with those functions); '
                   'density rises across shocks and falls across fans; fans monotone; star states positive'),
    flow.Unit('mader', groups=['mader'], props=['props/C17_mader.v'], custom_corr=MC.unit_corr, oracle=oracle_of('mader'),
              note='rare() regenerated from the source; transition cell between the constant state and the fan value at its front edge; fan cells between '
                   'their edge values (mean-value theorem); constant state positive'),
    flow.Unit('noh', groups=['noh'], props=['props/C17_noh.v'], corr=[dict(gen='Noh1', pfx='noh', n=4, spec=c01.NOHSPEC)], oracle=oracle_of('noh')),
    flow.Unit('guderley', groups=['guderley'], props=['props/C17_guderley.v'], custom_corr=GDC.unit_corr, oracle=oracle_of('guderley'),
              note='Guderley: the coded reflected-shock jump is compressive and leaves the flow subsonic relative to the shock whenever the state ahead is supersonic '
                   'relative to it; converging shock compresses by (gamma+1)/(gamma-1) (theorems on the regenerated jump / start values)'),
    flow.Unit('sedov', groups=['sedov'], props=['props/C17_sedov.v'], custom_corr=__import__('sedov_corr').unit_corr, oracle=oracle_of('sedov'),
              note='Sedov blast front: post-shock density = (gamma+1)/(gamma-1) x ambient profile at the coded shock radius (compressive for every omega, t), '
                   'front and gas move outward, post-shock pressure positive (theorem on the regenerated constructor constants of _run)'),
    flow.Unit('ep-piston', groups=['piston'], props=['props/C17_piston.v'], custom_corr=__import__('piston_corr').unit_corr, oracle=oracle_of('piston'),
              note='elastic-plastic piston: the plastic wave compresses (rho2 > rho_y) for every piston speed between the precursor particle velocity and the plastic '
                   'wave speed, a compressive precursor moves the material forward (theorem on the regenerated constructor algebra; yield density and plastic wave '
                   'speed are free variables)'),
    flow.Unit('real-code', groups=[], props=[], oracle=oracle_of('noh', 'sedov', 'guderley', 'riemann', 'ehep', 'mader', 'sdrz', 'piston', 'suolson'),
              always_oracle=True,
              note='signs, compressive shocks, monotone fans and between-ness along fine point sequences on the REAL solvers: Noh, Sedov (standard, singular, '
                   'vacuum), Guderley, IGEOS (incl. problems placed next to every threshold of the wave-pattern chain) and GenEOS Riemann, EHEP (incl. a 1e-8 '
                   'sweep through the escape front), Mader (several grid spacings, all cells), SDRZ, EP piston, Su-Olson (0 <= v <= u <= 1, monotone in x and t, '
                   'within the quadrature tolerance). These solvers have no C17 theorem (SciPy numerics / interpolation glue): oracle only'),
]


def run(report, tier, rng):
    report.assumptions += [
        'real-number semantics of the generated functions (riemann/utils.py, mader/rarefaction.py:rare, noh1.py) and of the hand model of the Riemann driver',
        'Riemann: the theorem is about an exact root of the chosen equation; bisect\'s bracket [0, 10 max(pl,pr)] and tolerance are outside it',
        'Mader: mader() maps rare() over the cells with dx = (x[-1]-x[0])/len(x) (read, exercised by the oracle); cells ahead of the front are outside the documented domain',
        'Sedov, Guderley, GenEOS Riemann, EHEP, SDRZ, EP piston, Su-Olson, radiative shocks: no theorem, oracle on the real code only (radiative shocks are not in the '
        'oracle: their profiles come from ODE integration with problem-dependent spikes; see C12)',
    ]
    flow.run_units(report, UNITS, tier, rng)


def replay(path):
    print(json.dumps(json.load(open(path)), indent=1)[:4000])
    return 0
