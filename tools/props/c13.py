"""C13 - burn times are causal first-arrival times of a front moving at speed D."""
import json
import flow
import harness as H
import burn_corr as BC

UNITS = [
    flow.Unit('kenamond-dsd', groups=[], props=['props/C13_burn.v'], custom_corr=BC.unit_corr, oracle=BC.oracle),
    flow.Unit('kenamond3', groups=[], props=['props/C13_k3.v'], custom_corr=BC.unit_corr, oracle=BC.oracle, always_oracle=True,
              note='Kenamond 3: t_d at the detonator and nowhere earlier (2-D, 3-D); the line-of-sight and tangent-arc-tangent branches agree on the shadow boundary; '
                   'in the shadow zone the gradient (polar coordinates about the axis origin-detonator) has magnitude 1/D (theorems on the hand model, tied by the '
                   'correspondence); global Lipschitz bound across the two branches: oracle on the real code'),
]


def run(report, tier, rng):
    report.assumptions += [
        'hand-written per-point models of the vector code (coq/model/Burn.v), tied to the code by in-Coq correspondence goals',
        'the conclusion "inside |x|<=R the Kenamond 2 burn time is bt3" and a global Lipschitz bound for Kenamond 3 are not proved (oracle only)',
    ]
    flow.run_units(report, UNITS, tier, rng)


def replay(path):
    print(json.dumps(json.load(open(path)), indent=1)[:4000])
    return 0
