"""C13 - burn times are causal first-arrival times of a front moving at speed D."""
import json
import flow
import harness as H
import burn_corr as BC

UNITS = [
    flow.Unit('kenamond-dsd', groups=[], props=['props/C13_burn.v'], custom_corr=BC.unit_corr, oracle=BC.oracle),
    flow.Unit('kenamond3-shadow', groups=[], props=[], oracle=BC.oracle, always_oracle=True,
              note='Kenamond 3 shadow zone (inverse trigonometric path length): continuity/eikonal checked on the real code only'),
]


def run(report, tier, rng):
    report.assumptions += [
        'hand-written per-point models of the vector code (coq/model/Burn.v), tied to the code by in-Coq correspondence goals',
        'Kenamond 3 shadow-zone formula and the conclusion "inside |x|<=R the Kenamond 2 burn time is bt3" are not proved (oracle only)',
    ]
    flow.run_units(report, UNITS, tier, rng)


def replay(path):
    print(json.dumps(json.load(open(path)), indent=1)[:4000])
    return 0
