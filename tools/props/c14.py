"""C14 - heat solutions satisfy the heat equation, boundary conditions and initial data."""
import json
import flow
import harness as H
import heat_corr as HC
import heat_oracle as HO
import hutchens1_corr as H1C
import rectangle_corr as RCC

# defects of the unchanged tree recorded in KNOWN_FINDINGS.json: which (solver tag, check) pairs of the oracle each explains
COVERS = {
    'rod1d-robin-series': {('rod-robin', 'bc0'), ('rod-robin', 'bcL'), ('rod-robin', 'ic'), ('rod-robin', 'steady'),
                           ('rod-robin-hom', 'bc0'), ('rod-robin-hom', 'bcL'), ('rod-robin-hom', 'ic'), ('rod-robin-hom', 'steady')},
    'rectangle-sides-not-insulated': {('rectangle', 'sides_flux')},
    'hutchens1-centre-value': {('hutchens1', 'centre')},
    'hutchens2-running-sum': {('hutchens2', 'pde'), ('hutchens2', 'wall')},
    'cylindrical-sandwich-series': {('cylindrical-sandwich', 'pde'), ('cylindrical-sandwich', 'ic'), ('cylindrical-sandwich', 'theta_pi2')},
}
WITNESS = {
    'rod1d-robin-series': dict(tag='rod-robin-hom', fracs=[0.15, 0.5, 0.85], t1=0.03, t2=0.2,
                               **{'class': 'Rod1D', 'params': dict(kappa=1.0, L=2.0, TL=3.0, TR=3.0, Nsum=150, alpha1=1.0, beta1=0.5, gamma1=0, alpha2=1.0, beta2=-0.5, gamma2=0)}),
    'rectangle-sides-not-insulated': dict(tag='rectangle', fracs=[0.2, 0.5, 0.8], fracs2=[0.2, 0.5, 0.8], t1=0.03, t2=0.2,
                                          **{'class': 'Rectangle', 'params': dict(kappa=1.0, a=2.0, b=2.0, Ttop=1.0, Nsum=100)}),
    'hutchens1-centre-value': dict(tag='hutchens1', fracs=[0.2, 0.5, 0.8], t1=0.03, t2=0.2, **{'class': 'Hutchens1', 'params': dict(Nsum=100)}),
    'hutchens2-running-sum': dict(tag='hutchens2', fracs=[0.2, 0.5, 0.8], fracs2=[0.2, 0.5, 0.8], t1=0.03, t2=0.2, **{'class': 'Hutchens2', 'params': dict(Nsum=100)}),
    'cylindrical-sandwich-series': dict(tag='cylindrical-sandwich', fracs=[0.2, 0.5, 0.8], fracs2=[0.2, 0.5, 0.8], t1=0.03, t2=0.2,
                                        **{'class': 'CylindricalSandwich', 'params': dict(Nsum=3, Msum=5, T0=0.5, T1=1.0)}),
}
WHAT = {
    'rod1d-robin-series': 'Rod1D general (Robin) boundary conditions with alpha1 != 0: the series neither reproduces the initial profile nor meets the boundary conditions (e.g. T0=T1=3, alpha=1, beta=+-0.5 gives T(0.3, t->0) = -0.51)',
    'rectangle-sides-not-insulated': 'Rectangle: the module documentation declares zero heat flux on the sides x=0, x=a; the returned field has T=0 and non-zero flux there',
    'hutchens1-centre-value': 'Hutchens1 returns the initial temperature T0 at r=0 for every t instead of the limit of nearby values (value pinned by test_heat_planar_hutchens1_regression)',
    'hutchens2-running-sum': 'Hutchens2 adds the running partial sum inside the loop (and only odd axial modes): the temperature grows linearly with Nsum, violates the Poisson equation and the wall condition T(b,z)=Tb (values pinned by test_heat_planar_hutchens2_regression)',
    'cylindrical-sandwich-series': 'CylindricalSandwich: the transient part does not satisfy the heat equation nor the initial condition, and T(theta=pi/2) = T0+T1 instead of T1',
}


def known_ids():
    return set(k['id'] for k in flow.load_known('C14'))


def oracle(rng, tier, reasons):
    fails, _ = HO.run(rng, tier)
    covered = set()
    for fid in known_ids():
        covered |= COVERS.get(fid, set())
    return [f for f in fails if (f['solver'], f['check']) not in covered]


def replay_of(fid):
    def go():
        fails, allr = HO.run(None, 'quick', cases=[WITNESS[fid]])
        mine = [f for f in fails if (f['solver'], f['check']) in COVERS[fid]]
        if not mine:
            return None
        return {'input': {k: WITNESS[fid][k] for k in ('class', 'params')}, 'failed_checks': {f['check']: f['residual'] for f in mine}}
    return go


def finding(fid):
    return {'id': fid, 'refuted': None, 'what': WHAT[fid], 'replay': replay_of(fid)}


UNITS = [
    flow.Unit('rod-bc1-4-sandwiches', groups=['heat'], props=['props/C14_rod.v'], custom_corr=HC.unit_corr, oracle=oracle),
    flow.Unit('hutchens1', groups=['hutchens1'], props=['props/C14_hutchens1.v'], custom_corr=H1C.unit_corr, oracle=oracle,
              note='Hutchens 1: spherical heat equation at every r <> 0, surface value Tb, centre value = limit of nearby values, for every Nsum (theorems on the '
                   'regenerated series, np.where branch included); the initial condition holds only in the limit Nsum -> infinity (oracle)'),
    flow.Unit('rectangle', groups=['rectangle'], props=['props/C14_rectangle.v'], custom_corr=RCC.unit_corr, oracle=oracle,
              findings=[dict(finding('rectangle-sides-not-insulated'), refuted='props/C14_rectangle_refuted.v', pending=None)],
              note='Rectangle: 2-D heat equation everywhere, T = 0 on the bottom and on both sides, for every Nsum (theorems on the regenerated double series); the '
                   'documented zero-flux side condition is refuted (machine-checked, known finding); top value and initial data hold only in the limit (oracle)'),
    flow.Unit('heat-real-code', groups=[], props=[], oracle=oracle, always_oracle=True,
              findings=[finding(f) for f in ('rod1d-robin-series', 'hutchens1-centre-value', 'hutchens2-running-sum')],
              note='finite-difference check of PDE / boundary / initial / steady behaviour on the real code for every heat solver, including those '
                   'outside the theorems (Robin modes from fsolve, Rectangle, Hutchens 1 and 2, cylindrical sandwich)'),
]
UNITS_THOROUGH = [
    flow.Unit('cylindrical-sandwich', groups=[], props=[], oracle=None, findings=[finding('cylindrical-sandwich-series')],
              note='Bessel-function series with Newton roots and quadrature (class NU): oracle only'),
]


def run(report, tier, rng):
    report.assumptions += [
        'Rod1D (BC1-BC4) and the three planar sandwiches: loop skeleton read structurally, loop bodies translated (gen/Heat.v); the series is a finite sum, so the '
        'heat equation, the boundary conditions and the t->infinity limit are proved exactly for every truncation order',
        't -> 0+: proved that the coefficients are the Fourier coefficients (L2 projections on the eigenfunctions) of initial profile minus static part; pointwise '
        'convergence of the eigenfunction expansion (Dirichlet-Jordan) is NOT proved in Coq - checked numerically on the real code by the oracle',
        'general Robin conditions (SciPy fsolve), Rectangle, Hutchens 1/2, cylindrical sandwich: no theorem; finite-difference oracle on the real code',
    ]
    flow.run_units(report, UNITS + (UNITS_THOROUGH if tier == 'thorough' else []), tier, rng)


def replay(path):
    print(json.dumps(json.load(open(path)), indent=1)[:4000])
    return 0
