"""C11 - Sedov: energy behind the shock equals eblast; mass conserved; undisturbed state ahead."""
import json
import flow
import harness as H
import sedov_corr as SC
import sedov_oracle as SO

WHAT = ('Sedov solutions whose density has an integrable singularity (vacuum type with a5 < 0 at the vacuum boundary; standard type with geometry < gamma*omega at the '
        'origin): the 3001-point linear interpolation of _run cannot carry the integral, so energy and mass of the RETURNED fields fall short of eblast / the '
        'initial mass by 0.05-3.4 % (geometry=2, gamma=2.1776, omega=1.6363, t=2.3644: E/eblast-1 = -1.4e-2, M/M0-1 = -2.7e-2)')


def oracle(rng, tier, reasons):
    return SO.oracle(rng, tier, reasons)


UNITS = [
    flow.Unit('sedov-similarity', groups=['sedov'], props=['props/C11_sedov.v'], custom_corr=SC.unit_corr, oracle=oracle,
              note='energy theorem in the similarity variable (alpha normalisation x shock radius x post-shock state x similarity functions), dlamdv = d(lambda)/dv, '
                   'closed-form mass antiderivative and its value at the shock, unit values at v2; standard non-special branch'),
    flow.Unit('sedov-real-code', groups=[], props=[], oracle=oracle, always_oracle=True,
              findings=[dict(id='sedov-singular-profiles-underresolved', refuted=None, what=WHAT, replay=SO.replay_witness)],
              note='energy and mass integrals of the RETURNED fields (trapezoid on graded grids), undisturbed state ahead of the shock; standard, singular, vacuum, '
                   'omega2 and omega3 branches sampled deliberately (their (gamma, omega) sets have measure zero)'),
]


def run(report, tier, rng):
    report.assumptions += [
        'scipy.integrate.quad returns the integrals of the coded efun01 / efun02 (I1, I2 are hypotheses of the theorem); fminbound and the 3001-point interpolation are outside the theorems',
        'real-number semantics; the clamps max(1e-30, .), max(., 1e-12) of sedov_funcs_standard are part of the model, the derivative / antiderivative theorems hold where they are inactive',
        'special (omega2, omega3), singular and vacuum branches: translated and covered by the correspondence, no theorem; oracle on the real code',
    ]
    flow.run_units(report, UNITS, tier, rng)


def replay(path):
    print(json.dumps(json.load(open(path)), indent=1)[:4000])
    return 0
