"""C03 - thermodynamic fields returned together satisfy the problem's equation of state."""
import json
import flow
import harness as H
import oracles as O
import eos_all_oracle as EA
from props import c01

GAMK = {3: lambda p: (p['geometry'] - 2) / p['geometry'], 5: lambda p: 0.5,
        6: lambda p: (p['geometry'] + 2) / p['geometry'], 7: lambda p: (p['geometry'] + 2) / p['geometry'],
        18: lambda p: (p['geometry'] + 2) / p['geometry'], 21: lambda p: 5.0}


def units():
    out = []
    for u in c01.UNITS:
        if not u.name.startswith('cog'):
            continue
        i = int(u.name[3:])
        c = u.corr[0]
        out.append(flow.Unit(u.name, groups=u.groups, props=['props/C03_%s.v' % u.name],
                             corr=[dict(c, n=3)],
                             oracle=O.eos_oracle(c['gen'], c['pfx'], 'cog', gamma=GAMK.get(i), spec=c.get('spec'), rt=c.get('rt'))))
    out.append(flow.Unit('noh', groups=['noh'], props=['props/C03_noh.v'],
                         corr=[dict(gen='Noh1', pfx='noh', n=6, spec=c01.NOHSPEC)],
                         oracle=O.eos_oracle('Noh1', 'noh', 'gammalaw', spec=c01.NOHSPEC)))
    out.append(flow.Unit('noh2', groups=['noh2'], props=['props/C03_noh2.v', 'props/C03_noh2cog.v'],
                         corr=[dict(gen='Noh2', pfx='noh2', n=4, spec=c01.G, rt=c01.noh2_rt),
                               dict(gen='Noh2Cog', pfx='noh2cog', n=4, spec=c01.G, rt=c01.noh2_rt)],
                         oracle=O.eos_oracle('Noh2', 'noh2', 'gammalaw', spec=c01.G, rt=c01.noh2_rt)))
    out.append(flow.Unit('rmtv', groups=['rmtv'], props=['props/C03_rmtv.v'],
                         oracle=lambda rng, tier, reasons: EA.oracle(rng, tier, reasons, kinds=('rmtv',))))
    import mader_corr as MC
    out.append(flow.Unit('mader', groups=['mader'], props=['props/C03_mader.v'], custom_corr=MC.unit_corr,
                         oracle=lambda rng, tier, reasons: EA.oracle(rng, tier, reasons, kinds=('mader',)),
                         note='Taylor wave of rare(): c^2 = gamma p / rho pointwise and the isentrope through the CJ state (theorem on the mirror that is definitionally '
                              'the generated code); cell averages are compared on the real code by the oracle'))
    import guderley_corr as GDC
    import guderley_oracle as GDO
    out.append(flow.Unit('guderley', groups=['guderley'], props=['props/C03_guderley.v'], custom_corr=GDC.unit_corr, oracle=GDO.eos_oracle, always_oracle=True,
                         note='Guderley: p = (gamma - 1) rho e and c^2 = gamma p / rho in every integrated branch of state(), whatever the integrator returns (theorem); '
                              'real solver sampled in all four branches (oracle)'))
    import sedov_eos_corr as SEC
    out.append(flow.Unit('sedov', groups=['sedov_eos'], props=['props/C03_sedov.v'], custom_corr=SEC.unit_corr,
                         oracle=lambda rng, tier, reasons: EA.oracle(rng, tier, reasons, kinds=('sedov',)),
                         note='Sedov: energy and sound speed as assembled at the end of _run and in physical() obey the gamma law (theorems on the regenerated assignments; '
                              'the fields returned by the real solver are compared with these formulas evaluated on its own pressure and density)'))
    import ehep_corr as EHC
    out.append(flow.Unit('ehep', groups=['ehep'], props=['props/C03_ehep.v'], custom_corr=EHC.unit_corr,
                         oracle=lambda rng, tier, reasons: EA.oracle(rng, tier, reasons, kinds=('ehep',)),
                         note='escape of HE products: in every region cs^2 rho = 3 p and the CJ isentrope 256 rho_0^2 p = 27 D^2 rho^3 (theorem on the regenerated '
                              'region formulas, vacuum edge included); e = p / (rho (gamma - 1)); region lookup outside the theorem (correspondence reads the real label)'))
    out.append(flow.Unit('eos-real-code', groups=[], props=[], oracle=EA.oracle, always_oracle=True,
                         note='EOS consistency on the real code for both Riemann drivers with different gammas on the two sides (side decided from the contact '
                              'position), Sedov, EHEP, Mader (cell averages: tolerance 1e-4 on a fine grid) and RMTV'))
    return out


def run(report, tier, rng):
    report.assumptions += [
        'real-number semantics of the generated model (IEEE rounding not modelled; measured by the correspondence goals)',
        'py2coq translator (validated on every run by the in-Coq correspondence goals)',
    ]
    flow.run_units(report, units(), tier, rng)


def replay(path):
    d = json.load(open(path))
    print(json.dumps(d, indent=1)[:4000])
    return 0
