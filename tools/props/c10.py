"""C10 - self-similar problems return self-similar fields with the documented exponents."""
import json
import flow
import harness as H
import scaling_oracle as SO
import riemann_corr as RC
import riemann_oracles as RO
import selfsim_oracle as SS
from props import c01

UNITS = [
    flow.Unit('noh-and-riemann-fans', groups=['noh', 'riemann'], props=['props/C10_selfsim.v'],
              corr=[dict(gen='Noh1', pfx='noh', n=4, spec=c01.NOHSPEC)], custom_corr=RC.unit_corr,
              oracle=SO.make(SO.selfsim_cases)),
    flow.Unit('riemann-driver', groups=['riemann'], props=[], custom_corr=None, oracle=RO.sym_oracle(('selfsim',)), always_oracle=True,
              note='assembled Riemann solution: self-similarity about xd0 checked on the real code (oracle); theorem covers the fans'),
    flow.Unit('sedov-exponents', groups=['sedov'], props=['props/C10_sedov.v'], custom_corr=None, oracle=SS.oracle,
              note='regenerated shock radius r2 ~ t^(2/(j+2-omega)) and post-shock amplitudes rho2 ~ r2^-omega, u2 ~ r2/t, p2 ~ r2^-omega (r2/t)^2 (theorems); '
                   'the correspondence of gen/Sedov.v with the real object runs in ./check C11'),
    flow.Unit('sedov-guderley', groups=[], props=[], oracle=SS.oracle, always_oracle=True,
              note='Sedov with power-law ambient density (image that keeps E and rho0 fixed) and Guderley (equal Lazarus-time / r^lambda, all four regions) on the real '
                   'code; both solvers involve quadrature / ODE integration (class NU)'),
]


def run(report, tier, rng):
    flow.run_units(report, UNITS, tier, rng)


def replay(path):
    print(json.dumps(json.load(open(path)), indent=1)[:4000])
    return 0
