"""C10 - self-similar problems return self-similar fields with the documented exponents."""
import json
import flow
import harness as H
import scaling_oracle as SO
import riemann_corr as RC
import riemann_oracles as RO
import selfsim_oracle as SS
from props import c01

import mader_corr as MC
import ehep_corr as EC
import guderley_corr as GDC


def both_corr(rng, tier, prop):
    files, ng, dis, sample = MC.unit_corr(rng, tier, prop)
    f2, n2, d2, s2 = EC.unit_corr(rng, tier, prop)
    return files + f2, ng + n2, list(dis) + list(d2), sample or s2


UNITS = [
    flow.Unit('noh-and-riemann-fans', groups=['noh', 'noh2', 'riemann'], props=['props/C10_selfsim.v'],
              corr=[dict(gen='Noh1', pfx='noh', n=4, spec=c01.NOHSPEC)], custom_corr=RC.unit_corr,
              oracle=SO.make(SO.selfsim_cases)),
    flow.Unit('cog19-mader-ehep', groups=['cog19', 'mader', 'ehep'], props=['props/C10_more.v'],
              corr=[dict(gen='Cog19', pfx='cog19', n=4, spec={'gamma': (1.1, 2.5), 'u0': (-3.0, -0.2)})], custom_corr=both_corr,
              oracle=SO.make(SO.selfsim_cases),
              note='Cog19 in every geometry, the Mader cell function rare() (cell size scaled with t) and EHEP region I: theorems on the regenerated '
                   'expressions; correspondence of gen/Cog19.v, gen/Mader.v and gen/Ehep.v with the real code'),
    flow.Unit('selfsim-real-code', groups=[], props=[], oracle=SO.make(SO.selfsim_cases), always_oracle=True,
              note='Noh, Cog19 (geometries 1-3, both sides of the shock), EHEP region I and Mader (grid scaled with t) evaluated on the real code at (x, t) and '
                   'at the similarity image'),
    flow.Unit('riemann-driver', groups=['riemann'], props=[], custom_corr=None, oracle=RO.sym_oracle(('selfsim',)), always_oracle=True,
              note='assembled Riemann solution: self-similarity about xd0 checked on the real code (oracle); theorem covers the fans'),
    flow.Unit('sedov-exponents', groups=['sedov'], props=['props/C10_sedov.v'], custom_corr=None, oracle=SS.oracle,
              note='regenerated shock radius r2 ~ t^(2/(j+2-omega)) and post-shock amplitudes rho2 ~ r2^-omega, u2 ~ r2/t, p2 ~ r2^-omega (r2/t)^2 (theorems); '
                   'the correspondence of gen/Sedov.v with the real object runs in ./check C11'),
    flow.Unit('guderley-prefactors', groups=['guderley'], props=['props/C10_guderley.v'], custom_corr=GDC.unit_corr, oracle=SS.oracle,
              note='Guderley: the map from similarity variables to physical fields carries the documented powers of r at equal similarity coordinate, and the '
                   'coordinate computed by guderley_1d is invariant under r -> s r, Lazarus time -> s^lambda Lazarus time (theorems on the regenerated algebra)'),
    flow.Unit('sedov-guderley', groups=[], props=[], oracle=SS.oracle, always_oracle=True,
              note='Sedov with power-law ambient density (image that keeps E and rho0 fixed) and Guderley (equal Lazarus-time / r^lambda, all four regions) on the real '
                   'code; both solvers involve quadrature / ODE integration (class NU)'),
]


def run(report, tier, rng):
    flow.run_units(report, UNITS, tier, rng)


def replay(path):
    print(json.dumps(json.load(open(path)), indent=1)[:4000])
    return 0
