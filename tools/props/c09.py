"""C09 - Riemann and burn-time solutions respect mirror, Galilean and rigid symmetry."""
import json
import flow
import burn_corr as BC
import harness as H
import riemann_corr as RC
import riemann_oracles as RO

UNITS = [
    flow.Unit('riemann-igeos', groups=['riemann'], props=['props/C09_riemann.v'],
              custom_corr=RC.unit_corr, oracle=RO.sym_oracle(('mirror', 'boost'))),
    flow.Unit('riemann-geneos-real-code', groups=[], props=[], oracle=RO.gen_sym_oracle, always_oracle=True,
              note='general-EOS driver (outside the translated subset: root finding + interpolation from its own grid): a problem, its mirror image and a '
                   'boosted copy are solved by the real GenEOS_Solver and compared away from the wave positions, every wave pattern with moving contacts'),
    flow.Unit('burn-times', groups=[], props=['props/C09_burn.v', 'props/C09_k3.v'], custom_corr=BC.unit_corr, oracle=BC.sym_oracle),
    flow.Unit('burn-times-real-code', groups=[], props=[], oracle=BC.sym_oracle, always_oracle=True,
              note='rotations / reflections / rigid motions of the burn-time solvers on the real code (Kenamond 1-3 in 2-D and 3-D, DSD cylindrical expansion)'),
]


def run(report, tier, rng):
    report.assumptions += [
        'star pressure: the theorems are about the equations handed to scipy.optimize.bisect and everything computed from its result; bisect itself is outside the model',
        'hand-written model of the driver (coq/model/RiemannIG.v) tied to the code by in-Coq correspondence goals',
    ]
    flow.run_units(report, UNITS, tier, rng)


def replay(path):
    print(json.dumps(json.load(open(path)), indent=1)[:4000])
    return 0
