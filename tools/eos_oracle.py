#!/usr/bin/env python3
"""C16 oracle on the REAL code: closures inverse, coded partial derivatives vs central differences,
residual Jacobians vs finite differences, inverse Jacobian, and the converged Newton state."""
import harness as H

SCRIPT = r'''
import importlib
from exactpack.solvers.nohblackboxeos.equations_of_state import eos_library as L
from exactpack.solvers.nohblackboxeos.solution_tools import residual_functions as RF

def make_eos(name, g):
    if name == 'ideal': return L.ideal_gas_eos(g)
    if name == 'stiff': return L.stiffened_gas_eos(g, 0.7, 0.9)
    if name == 'noble_abel': return L.noble_abel_eos(g, 0.05)
    if name == 'carnahan_starling': return L.carnahan_starling_eos(g, 0.1)
    if name == 'aluminum': return L.aluminum_eos()

def cd(f, x, h):
    return (f(x + h) - f(x - h)) / (2 * h)

def check_eos(name, g, rho, e):
    eos = make_eos(name, g)
    out = {}
    P = eos.P(rho, e)
    out['P(rho,e(rho,P))'] = abs(eos.P(rho, eos.e(rho, P)) - P) / (abs(P) + 1e-300)
    out['e(rho,P(rho,e))'] = abs(eos.e(rho, P) - e) / (abs(e) + 1e-300)
    hr, he, hp = 1e-6 * rho, 1e-6 * abs(e) + 1e-12, 1e-6 * abs(P) + 1e-12
    pairs = {'dP_drho': (eos.dP_drho(rho, e), cd(lambda x: eos.P(x, e), rho, hr)),
             'dP_de': (eos.dP_de(rho, e), cd(lambda x: eos.P(rho, x), e, he)),
             'de_dP': (eos.de_dP(rho, P), cd(lambda x: eos.e(rho, x), P, hp)),
             'de_drho': (eos.de_drho(rho, P), cd(lambda x: eos.e(x, P), rho, hr))}
    for k, (a, b) in pairs.items():
        out[k] = abs(a - b) / (abs(a) + abs(b) + 1e-300)
    out['values'] = {k: [float(a), float(b)] for k, (a, b) in pairs.items()}
    return out

def check_residual(cls_name, eosname, g, ic, state):
    eos = make_eos(eosname, g)
    R = getattr(RF, cls_name)(ic, eos)
    x = np.array(state, dtype=float)
    n = len(x)
    J = np.array(R.F_prime(x), dtype=float).copy()
    Jfd = np.zeros((n, n))
    for j in range(n):
        h = 1e-6 * max(abs(x[j]), 1e-3)
        xp = x.copy(); xm = x.copy(); xp[j] += h; xm[j] -= h
        Jfd[:, j] = (np.array(R.F(xp), dtype=float).copy() - np.array(R.F(xm), dtype=float).copy()) / (2 * h)
    scale = np.abs(J) + np.abs(Jfd) + 1e-8 * (np.abs(J).max() + 1e-300)
    rel = np.abs(J - Jfd) / scale
    i, j = np.unravel_index(np.argmax(rel), rel.shape)
    out = {'jacobian_worst': float(rel.max()), 'entry': [int(i), int(j)], 'coded': float(J[i, j]), 'finite_difference': float(Jfd[i, j])}
    try:
        Ji = np.array(R.F_prime_inv(x), dtype=float).copy()
        out['inverse_defect'] = float(np.abs(Ji.dot(J) - np.eye(n)).max())
    except Exception as ex:
        out['inverse_error'] = type(ex).__name__
    return out

def main(payload):
    res = []
    for c in payload:
        try:
            if c['what'] == 'eos':
                res.append(check_eos(c['eos'], c['gamma'], c['rho'], c['e']))
            else:
                res.append(check_residual(c['cls'], c['eos'], c['gamma'], c['ic'], c['state']))
        except Exception as ex:
            res.append({'error': type(ex).__name__ + ': ' + str(ex)[:200]})
    return res
'''

KNOWN = {('carnahan_starling', 'de_drho')}


def cases(rng, n):
    out = []
    for _ in range(n):
        g = round(rng.uniform(1.2, 2.5), 4)
        for eos in ('ideal', 'stiff', 'noble_abel', 'carnahan_starling'):
            out.append({'what': 'eos', 'eos': eos, 'gamma': g, 'rho': round(rng.uniform(0.3, 3.0), 4), 'e': round(rng.uniform(0.5, 5.0), 4)})
        out.append({'what': 'eos', 'eos': 'aluminum', 'gamma': g, 'rho': round(rng.choice([rng.uniform(1.5, 2.6), rng.uniform(2.8, 4.0)]), 4),
                    'e': round(rng.uniform(1e9, 5e10), 1)})
        for cls, nst in (('energy_noh_residual', 3), ('pressure_noh_residual', 3), ('simplified_energy_noh_residual', 2), ('simplified_pressure_noh_residual', 2)):
            sym = rng.choice([0, 1, 2])
            p0 = round(rng.uniform(0.1, 1.0), 3) if (sym == 0 and rng.random() < 0.5) else 0
            ic = {'velocity': -round(rng.uniform(0.5, 2.0), 3), 'density': round(rng.uniform(0.5, 2.0), 3), 'pressure': p0, 'symmetry': sym}
            st = [round(rng.uniform(2.0, 6.0), 3), round(rng.uniform(0.5, 3.0), 3), round(rng.uniform(0.2, 1.0), 3)][:nst]
            out.append({'what': 'residual', 'cls': cls, 'eos': rng.choice(['ideal', 'stiff', 'noble_abel']), 'gamma': g, 'ic': ic, 'state': st})
    return out


def oracle(rng, tier, reasons, known=True):
    cs = cases(rng, 6 if tier == 'quick' else 60)
    res = H.run_real(SCRIPT, cs)
    fails = []
    for c, r in zip(cs, res):
        if 'error' in r:
            continue
        if c['what'] == 'eos':
            for k in ('P(rho,e(rho,P))', 'e(rho,P(rho,e))', 'dP_drho', 'dP_de', 'de_dP', 'de_drho'):
                if r[k] > 1e-5:
                    if known and (c['eos'], k) in KNOWN:
                        continue
                    fails.append({'eos': c['eos'], 'gamma': c['gamma'], 'rho': c['rho'], 'e': c['e'], 'identity': k, 'relative_error': r[k],
                                  'coded_vs_central_difference': r['values'].get(k)})
        else:
            if r['jacobian_worst'] > 1e-5:
                if known and c['cls'] == 'pressure_noh_residual' and r['entry'] == [2, 0] and c['ic']['pressure'] != 0:
                    continue
                fails.append({'residual': c['cls'], 'eos': c['eos'], 'initial_conditions': c['ic'], 'state': c['state'], 'jacobian_entry': r['entry'],
                              'coded': r['coded'], 'finite_difference': r['finite_difference'], 'relative_error': r['jacobian_worst']})
            if r.get('inverse_defect', 0) > 1e-6 and r['jacobian_worst'] <= 1e-5:
                fails.append({'residual': c['cls'], 'eos': c['eos'], 'initial_conditions': c['ic'], 'state': c['state'],
                              'F_prime_inv_times_F_prime_minus_identity': r['inverse_defect']})
    return fails
